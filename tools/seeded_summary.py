#!/usr/bin/env python3
"""Summary of the latest evaluation recorded in every seeded/*/meta.json: tools/seeded_summary.py [--since HEAD_PREFIX]"""
import glob, json, os, sys
rows = []
for m in sorted(glob.glob(os.path.join(os.path.dirname(os.path.dirname(os.path.abspath(__file__))), "seeded", "*", "meta.json"))):
    d = json.load(open(m))
    ev = d.get("evaluations") or []
    last = ev[-1] if ev else {}
    sid = os.path.basename(os.path.dirname(m))
    if d.get("neutralised_by"):
        rows.append((sid, "detected: no longer a breaking change (neutralised by repair %s)" % d["neutralised_by"]["commit"], last.get("repo_head", ""), last.get("at", "")))
        continue
    if not last:
        rows.append((sid, "never evaluated", "", ""))
        continue
    if last.get("patch_applies") is False:
        rows.append((sid, "PATCH DOES NOT APPLY", last.get("repo_head", ""), last.get("at", "")))
        continue
    det = last.get("detected_by") or [k.split("/")[0] for k, v in (last.get("checks") or {}).items() if v.get("detected")]
    rows.append((sid, "detected by " + ",".join(sorted(set(det))) if det else "MISSED", last.get("repo_head", ""), last.get("at", "")))
bad = [r for r in rows if not r[1].startswith("detected")]
neutral = [r for r in rows if "neutralised" in r[1]]
print("%d seeded changes, %d detected in their latest evaluation, %d of the others neutralised by a later repair of /repo" % (len(rows), len(rows) - len(bad) - len(neutral), len(neutral)))
for r in bad:
    print("  %-22s %-24s head=%s at=%s" % r)
