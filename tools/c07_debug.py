"""usage: c07_debug.py <config> <crash_n> <dir>  -- reproduce one crash point and keep everything"""
import os, sys, shutil
sys.path.insert(0, os.path.dirname(os.path.dirname(os.path.abspath(__file__))))
from vlib import runner, pipeline
from vlib.checks import c07
cname, n, d = sys.argv[1], int(sys.argv[2]), sys.argv[3]
cfg = c07.CONFIGS[cname]
seed = int(os.environ.get("VERIF_SEED", "0"))
shutil.rmtree(d, ignore_errors=True)
extra = c07.make_inputs(cfg, d, seed * 7 + len(cname))
clean = os.path.join(d, "clean")
r = runner.run_isoquant(c07.args_for(cfg, d, clean, extra), os.path.join(d, "home"), mon=["crash"], cfg={"crash_root": clean}, events=os.path.join(d, "ev_clean"))
print("clean", r["rc"])
out = os.path.join(d, "crash")
r1 = runner.run_isoquant(c07.args_for(cfg, d, out, extra), os.path.join(d, "home"), mon=["crash"], cfg={"crash_root": out, "crash_at": n}, events=os.path.join(d, "ev"))
print("crash", r1["rc"])
r2 = runner.run_isoquant(["--resume", "-o", out], os.path.join(d, "home"))
print("resume", r2["rc"]); print(r2["out"][-1500:])
for rel, why in runner.compare_trees(os.path.join(clean, "SMP"), os.path.join(out, "SMP")):
    print("DIFF", rel, why)
