CHECKS = {
 "C16": {
  "text": "Bounded-exhaustive runtime contract: every CIGAR core of <=5 (quick) / <=7 (thorough) operations with lengths {1,3} x clip variants, plus random long CIGARs, is pushed through the real get_read_blocks / AlignmentInfo under an icontract post-condition that compares with an independent CIGAR walk; tail trimming is driven through the real add_polya_info with the real finder and with jointly-feasible injected tail positions and its post-conditions (non-empty, ordered, slice of the original, blocks parallel, tail position on the retained exon) are asserted. Exhaustive inside the bound, sampled outside.",
  "note": "Trusted: the independent CIGAR walk in vlib/checks/c16.py, pysam record construction. Domain excludes N-delimited segments without aligned bases (dropped on purpose by the code).",
  "technique": "runtime contracts (icontract post-condition + reference-model oracle) on the real functions, bounded-exhaustive + random workload",
 },
}
NOT_APPLICABLE = {}
