CHECKS = {
 "C16": {
  "text": "Bounded-exhaustive runtime contract: every CIGAR core of <=5 (quick) / <=7 (thorough) operations with lengths {1,3} x clip variants, plus random long CIGARs, is pushed through the real get_read_blocks / AlignmentInfo under an icontract post-condition that compares with an independent CIGAR walk; tail trimming is driven through the real add_polya_info with the real finder and with jointly-feasible injected tail positions and its post-conditions (non-empty, ordered, slice of the original, blocks parallel, tail position on the retained exon) are asserted. Exhaustive inside the bound, sampled outside.",
  "note": "Trusted: the independent CIGAR walk in vlib/checks/c16.py, pysam record construction. Domain excludes N-delimited segments without aligned bases (dropped on purpose by the code).",
  "technique": "runtime contracts (icontract post-condition + reference-model oracle) on the real functions, bounded-exhaustive + random workload",
 },
 "C19": {
  "text": "Bounded-exhaustive runtime contracts: icontract post-conditions with set-of-positions oracles on the real interval primitives of src/common.py, GeneInfo.split_exons, FeatureProfiles.set_profiles and both read-profile constructors, driven over every interval pair, every sorted disjoint interval list (x every position), every pair of lists, every small exon set and every (known transcript, read) pair over a universe of 6-9 positions, plus random large instances, plus the repository's own tests executed with the contracts on. Exhaustive inside the bound only.",
  "note": "Trusted: the set oracles in vlib/contracts19.py. Pre-conditions are the functions' documented ones (sorted disjoint lists); the read-profile oracle is applied only where each read feature lies within delta of at most one known feature and features are longer than delta; truncate_read_to_polya only for tail positions inside the read's exons; overlaps_at_least (a heuristic predicate without set semantics) is not contracted.",
  "technique": "runtime contracts (icontract post-conditions with set-theoretic oracles) on the real functions, bounded-exhaustive workload",
 },
 "C15": {
  "text": "Round-trip contract on the real (de)serialisers over generated values of the format's domain (field-by-field structural comparison, value classes recorded), random record streams written by the real TmpFileAssignmentPrinter and read by both real loaders with byte-offset agreement, byte-exact re-encoding of the intermediate files of real --keep_tmp runs, and --keep_tmp -> --read_assignments reuse pairs whose outputs must be identical. Sampled, not exhaustive.",
  "note": "Trusted: the structural comparer in vlib/checks/c15.py; penalties compared at 2^-20 (stored resolution); 65535-char strings excluded (collide with the None marker by design); read ids and chromosome names ASCII.",
  "technique": "runtime round-trip contracts on the real serialisers + offline comparison of reuse runs (generated-value and stream workloads)",
 },
 "C06": {
  "text": "Whole output trees of runs that differ only in --threads (1..16), PYTHONHASHSEED, --high_memory, --keep_tmp, repetition and injected per-task delays are compared byte-wise with a -t 1 / hash-seed-0 reference on rich multi-chromosome worlds (read groups, multi-mappers, shared-exon genes, --count_exons, --check_canonical); the schedule monitor records which worker handled which chromosome and the completion order, and the evidence counts the distinct schedules actually produced. Schedules and seeds are sampled.",
  "note": "Trusted: byte comparison (header lines with the command line ignored, gz decompressed, aux/ ignored). Schedules are those the process pool produced under seeded delays, not all possible ones.",
  "technique": "differential runtime monitoring: schedule-perturbed and hash-seed-perturbed executions compared with a reference execution; schedule event log",
 },
 "C07": {
  "level": "fault_enumeration",
  "text": "Fault enumeration at the level of file-system mutations: a counting monitor numbers every open-for-write / gzip-open-for-write / remove under the output directory of a deterministic -t 1 run; for each selected number n the run is killed (os._exit) immediately before mutation n, continued with --resume, and the final tree is compared with an uninterrupted run. Quick: every distinct call site (function, operation, file kind) of two configurations once plus random fill and 6 multi-process kills; thorough: every crash point of five configurations (single/multi chromosome, read-group table + --count_exons, --keep_tmp, annotation-free, gzipped outputs) plus 40 SIGKILLs of a -t 4 process group at worker mutations.",
  "note": "Trusted: os._exit before the mutation models a kill (buffers of already-open files are lost, as with SIGKILL); crash points before .params is complete are out of scope; crashes between two mutations are represented by the following mutation point; multi-process kill points are sampled.",
  "technique": "fault injection at counted file-system mutations (monkeypatched open/gzip.open/os.remove) + differential comparison with a clean run",
 },
 "C10": {
  "text": "Joint runs over several experiments (YAML and list inputs; sequences [A,B], [B,A], [A,A2], [A,B,C], ...; --threads 1 and 4; one and two files per experiment; with and without model construction) are compared, experiment by experiment and byte by byte, with stand-alone runs of the same experiment under the same name and options; combined_* tables are compared cell by cell with the per-experiment tables; the state monitor records the class-level state present at each process_sample entry. Sequences are sampled.",
  "note": "Trusted: byte comparison of trees (command-line header ignored). Sequences keep the number of files per experiment uniform, because a mixed sequence switches on file-name grouping for every experiment by design (extra grouped tables for single-file experiments).",
  "technique": "differential runtime monitoring (joint vs stand-alone executions) + carried-state snapshots at hooked process_sample",
 },
 "C17": {
  "text": "Every transcript, gene and exon id of both output GTFs of CLI runs is judged (uniqueness per file, reference ids printed only with reference coordinates, exon_id a function of (chr,start,end,strand) and injective across chromosomes and files, reference exon ids preserved) on worlds whose references already contain IsoQuant-style transcript/gene/exon ids below and above the numbers a fresh run allocates, plus annotation-free runs; the id monitor logs every FeatureIdStorage.get_id call and the function law is checked on the log. Sampled worlds.",
  "note": "Trusted: GTF parser in vlib/parse.py. A reference id printed with non-reference coordinates is interpreted as a novel/reference collision.",
  "technique": "offline checker over output files + hooked id-allocation log (function/injectivity law)",
 },
 "C18": {
  "text": "Every logged check_sites_are_canonical query, every Canonical= value of read_assignments.tsv and every Canonical attribute of the output GTFs is recomputed from the FASTA for the reported strand; worlds contain introns canonical on +, on -, on neither (all three documented pairs), loci where a + and a - isoform share an intron exactly in both processing orders, reads with introns outside the gene region, and hidden isoforms whose novel models' strands are compared with splice-site / annotated-intron / polyA evidence; all --report_canonical levels. Sampled worlds.",
  "note": "Trusted: documented canonical pairs; records with strand '.' are not judged; a novel model strand is flagged only when it contradicts every available kind of evidence.",
  "technique": "hooked query log + offline recomputation from the reference sequence (reference-model oracle)",
 },
 "C20": {
  "text": "Rounds of 2-16 real IsoQuant runs released together under one HOME (fresh or pre-populated cache, equal or different annotations) with seeded delays injected at the load->re-open and open->dump gaps of the shared JSON cache files; every run must exit 0 and produce the tree it produces alone, every logged cache read must parse, the cache file must be valid JSON afterwards, and the database each run used must contain exactly its own GTF's transcripts; the read_mapper index/BED/alignment caches are driven through their real find_stored_*/store_* functions from concurrent processes. Evidence counts rounds in which read-modify-write windows actually overlapped. Interleavings are sampled.",
  "note": "Trusted: timestamps from one monotonic clock per machine; lost cache entries are not treated as violations; the FASTQ/minimap2 path cannot run here, so the mapper caches are exercised at function level with stub files.",
  "technique": "concurrent stress executions with injected delays at hooked cache-file accesses + offline checker over the access log and outputs",
 },
 "C05": {
  "text": "The real AlignmentCollector.process() is driven in-process (tree's own args, both alignment storages, with and without annotation) over generated coverage profiles built to hit the region-splitting code (>=1024-read pile-ups inside one/two bins, >32 kb clusters with valleys beyond the 128-bin minimum, a valley in the last bin followed by short reads, bridging spliced reads), a hook on split_coverage_regions records how every cluster was cut, and the reported read ids are compared as a multiset with the ids expected from the BAM flags; CLI runs check corrected_reads.bed, read_assignments.tsv (no lost reads, no identical records) and the log's alignment statistics. Sampled profiles.",
  "note": "Trusted: pysam for reading the input; expected set = mapped, non-supplementary records (all generated with MAPQ 60, so MAPQ-dependent filters do not apply); filtered categories are labelled by the generator.",
  "technique": "in-process monitoring of the real collector with hooked region splitting + offline conservation check (input records = reported records) on CLI outputs",
 },
 "C02": {
  "text": "Every cell of the gene, transcript and transcript-model count tables of CLI runs is compared with the exact rational sum of the documented weights over the assignments reported in read_assignments.tsv / transcript_model_reads.tsv (a read kept on several loci is treated as one read shared by all its features), zero is accepted only when no uniquely assigned spliced read supports the feature, stats lines are recounted (unmapped from the BAM) and TPM tables recomputed; the counter monitor logs every increment of the real counters so that the per-read total weight is measured too. Rich worlds (ambiguous, inconsistent, multi-mapped incl. ties, several chromosomes) x strategy pairs x normalisations. Sampled worlds.",
  "note": "Trusted: weights transcribed from docs/cmd.md (vlib/oracles/weights.py); values compared at print resolution; __ambiguous/__no_feature accepted between #reads and #records. One recorded known finding (multi-locus ties counted once per locus) is recognised only when the printed value equals exactly what that mechanism yields.",
  "technique": "offline conservation checker over output tables vs reported assignments (documented-weight reference model) + hooked counter increment log",
 },
 "C09": {
  "text": "CLI runs in every --read_group mode (tag, read_id, file, file_name) x counts formats x PYTHONHASHSEED x threads on worlds with 2-12 group names whose set order differs from sorted order, ~6% ungroupable reads and a group absent from one chromosome; every (feature, group) cell of the matrix and linear tables is compared with the documented weights restricted to the reads the generator put into that group, group sums with the ungrouped tables, matrix with linear triples, grouped TPM with rescaled columns; a run that aborts is a violation. Sampled worlds.",
  "note": "Trusted: generator's read->group truth and vlib/oracles/weights.py; worlds without multi-mapped reads (keeps the recorded C02 finding out of this check).",
  "technique": "offline partition/consistency checker over grouped output tables vs generator truth",
 },
 "C13": {
  "text": "Every row of exon_counts.tsv / intron_counts.tsv and their grouped variants (aggregated per feature and group) from --count_exons runs is compared with an independent recount over the processed reads of read_assignments.tsv: a three-valued oracle gives an interval per count (degenerate for >99% of rows in these worlds), rows must name an annotated feature with the annotation's strands and sorted gene list, and grouped rows must partition the ungrouped ones; worlds contain overlapping, shared (both strands), contained and alternative terminal features; all delta presets and data types. Sampled worlds.",
  "note": "Trusted: recount oracle in vlib/checks/c13.py (include exact unless two annotated features lie within delta of one read feature; exclude between the strict and the generous reading of the statement).",
  "technique": "offline recount oracle over output tables vs reported read alignments (interval-valued reference model)",
 },
 "C03": {
  "text": "Both output GTFs of CLI runs (with and without annotation, all eight model-construction strategies, three data types, noisy multi-chromosome worlds with hidden isoforms, reads reaching beyond genes, multi-mappers, plus a >75 kb locus that the split monitor confirms is processed in several regions) are judged record by record against the structural rules of the statement; reference ids against the input GTF; extended annotation = reference + exactly the novel models. Sampled worlds.",
  "note": "Trusted: GTF parser; chromosome lengths from the .fai; only structural rules of the statement are judged.",
  "technique": "offline structural checker over output annotations vs input annotation (+ hooked region-splitting log as coverage evidence)",
 },
 "C04": {
  "text": "Every novel model of CLI runs (strategies x data types x with/without annotation; hidden isoforms of both kinds so that .nic and .nnic models must both appear, otherwise inconclusive) is judged against corrected_reads.bed (every intron present in some corrected read of the chromosome), transcript_model_reads (>=1 supporting read; no line naming an unknown transcript), strand definiteness, nic/nnic suffix vs annotated introns, intron-chain uniqueness vs reference and other novel models, novel_gene_* membership in annotation-free runs. Sampled worlds.",
  "note": "Trusted: exact coordinate comparison; 'supporting read' = a line of transcript_model_reads.",
  "technique": "offline containment/inequality checker over output files",
 },
 "C14": {
  "text": "Every record of corrected_reads.bed from CLI runs (all six splice-correction strategies x data types, annotated and annotation-free with a short-read BAM) is judged: BED12 arithmetic, start/end preserved unless an enabled terminal correction with the matching event applies, every splice site in the allowed set (own sites, annotated introns equal to a read intron within delta, introns of a reported isoform, short-read junctions), strategy none = identity. Reads are built to trigger each event (jitter with/without errors next to junctions, misaligned/skipped micro-exons, retained micro-introns, intron shifts, fake terminal exons, missed short terminal exons, far alternative sites); a strategy that changes no read makes the run inconclusive. Sampled worlds.",
  "note": "Trusted: BED/TSV parsers, independent CIGAR walk for annotation-free inputs; the allowed-site set is a superset of what a legitimate correction can produce.",
  "technique": "offline checker over corrected alignments vs input alignments, reported events and annotation",
 },
 "C08": {
  "text": "The real MultimapResolver.resolve is driven in-process on generated lists of 2-6 alignment records per read (all assignment types, primary/secondary, equal coordinates on different chromosomes, exact duplicates with permuted isoform lists) under a priority-model post-condition and under every permutation of the list (all for <=5 records, 40 sampled for 6): the retained set must be permutation-invariant; the same model judges every resolution logged by the resolve monitor inside CLI runs; paralog worlds are run with different chromosome processing orders (padded lengths) and memory modes and the retained records per read are compared, losers must be absent from the BED. Lists and worlds are sampled.",
  "note": "Trusted: priority model in vlib/oracles/multimap.py (states only what the property states: nothing about penalties or which inconsistent/uninformative alignment is chosen). The 'counted once' clause is decided by C02 (recorded known finding for ties).",
  "technique": "runtime contract (reference-model post-condition) on the real resolver under permutation workloads + hooked resolution log in pipeline runs + differential runs",
 },
 "C12": {
  "text": "Per world a reference run (.gtf + --complete_genedb, one BAM) is compared with runs that supply the same annotation as .gtf.gz, with inferred genes/transcripts, as pre-built complete and inferred .db (built by the tree's own gtf2db), through the conversion cache (the cached branch must be reported, else inconclusive) and with --clean_start: whole trees must be byte-identical; and with the same records split into 2-5 BAMs (random, by chromosome, equal-coordinate twins in different files): read assignments, BED and ungrouped reference tables must be equal as multisets of records. The merge monitor counts cross-file coordinate ties actually merged. Sampled worlds/partitions.",
  "note": "Trusted: byte/multiset comparison; outputs that legitimately depend on the number of files (file-name grouping, technical-replica rule for novel models) are not compared.",
  "technique": "differential runtime monitoring (equivalent-input executions) + hooked BAM-merge log",
 },
 "C11": {
  "text": "Metamorphic runtime check: each world (rich noisy, event world with every left/right-specific alignment artefact in both orientations, noise-free) is run as is, shifted by k in {1,7,255,256,257,1000,4099} and reflected (genome reverse-complemented, annotation mirrored with strands flipped, alignments mirrored with reversed CIGAR and reverse-complemented sequence); shifted outputs must equal the original outputs with k added to every coordinate field, byte for byte; reflected outputs must give every read the same type and isoform/gene sets, flipped strand, the same event multiset after the left/right swap with mirrored coordinates, mirrored corrected alignments, identical reference count tables and, for noise-free inputs, mirrored models and model counts. Worlds stay below the region-splitting thresholds. Sampled worlds.",
  "note": "Trusted: the input transformation in vlib/transform.py and the output field map (which columns/event payloads are coordinates, which are distances). One recorded known finding (polyA/polyT coordinate convention differs by 1-2 bp) is recognised only when nothing but that coordinate differs.",
  "technique": "metamorphic differential monitoring (transformed executions vs transformed outputs)",
 },
 "C01": {
  "text": "read_assignments.tsv of CLI runs (four matching presets x three data types) is joined with the generator's truth: conforming reads (derived from an annotated isoform by truncation, junction jitter <= documented delta, exonic indels, polyA/polyT at the 3' end, mono-exonic sub-reads) must get a consistent type, only structurally compatible isoforms, their source isoform when full-length, and a unique assignment when it is the only compatible one; reads that differ from every overlapping isoform by a hard difference (skipped/extra exon, retained intron, site shifted >= 110 bp, end extended >= 420 bp, hidden isoforms) must not get a consistent type. Worlds: multi-isoform, shared-exon and antisense genes, both strands, 3 chromosomes; splice sites of a locus identical or >= 30 bp apart. Sampled worlds.",
  "note": "Trusted: independent compatibility model (vlib/oracles/compat.py), generator truth; nothing is generated in the grey zone between tolerances and 'far beyond'; which consistent type is chosen is never asserted. One recorded known finding (terminal exon of similar length taken for a misalignment) is keyed by the reported event.",
  "technique": "offline checker over reported assignments vs generator truth with an independent reference model",
 },
}
NOT_APPLICABLE = {}
