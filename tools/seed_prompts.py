#!/usr/bin/env python3
"""Prepares one round of independent seeded-change authoring: a scratch git worktree of /repo per property under /tmp/seed_wt
(outside /repo and /verif) and a prompt file per property.  The prompts contain ONLY the text of the property, the list of
mechanisms already used for it (so that a new round explores other code) and practical notes about the sandbox - nothing of /verif.
usage: tools/seed_prompts.py <suffix>      e.g. tools/seed_prompts.py e   ->  /tmp/seed_wt/C01_e ... , PROMPT_C01_e.txt ...
After a round: copy <worktree>/seeded_demo/* to /verif/seeded/agent-Cxx-<suffix>/, evaluate with tools/seeded_eval.py, then
`git -C /repo worktree remove --force <worktree>` and `git -C /repo worktree prune`."""
import json
import os
import subprocess
import sys

USED = {
    "C01": ["match_delta signed at the right intron boundary (twin acceptor sites)", "verify_polyt drops the wrong-side elongation event", "terminal_exon_misalignment heuristic",
            "JunctionComparator.compare_junctions memoised on the two intron chains only", "get_read_blocks: X operations inside a block not advanced",
            "CombinedProfileConstructor drops the absence_condition of the intron profile (partly retained introns)",
            "classify_assignment tests 'minor error' before 'major inconsistency'",
            "max_intron_abs_diff made a constant (preset exact tolerates a moved right splice site)",
            "add_extra_out_exon_events: reverse loop stops before read intron 0 (extra exon beyond the right end)",
            "fake_terminal_exon_right test measures the isoform region instead of the read's last exon"],
    "C02": ["`not (A and B)` rewritten as `not A and not B` in process_inconsistent", "ambiguous-read weight from len(isoform_matches)", "multi-locus ties counted per locus (recorded finding)",
            "GeneAssignmentExtractor.confirms_feature reads the transcript-level type", "count files appended to instead of truncated (AbstractCounter constructor)",
            "delete_from_storage resets read_assignment_counts to 0 (read attached to a discarded and a surviving model counted twice)",
            "alignment statistics / __not_aligned not reset between experiments of one run",
            "find_duplicates discards the second copy only for equal regions (read crossing a split cluster counted twice)",
            "gene grouped counter built with the transcript quantification strategy",
            "per-chromosome worker returns read ids as a set (reads with two alignments on one chromosome treated as unique)"],
    "C03": ["detected_known_isoforms reset per region", "TranscriptToGeneJoiner merges an annotated gene into a novel gene", "ExcludingIdDistributor.increment re-draws only once",
            "validate_exons rejects one-base exons",
            "create_extended_storage returns before adding novel models on sequences without annotated genes",
            "GFFPrinter.dump gene extent forgets the extension contributed by earlier transcripts",
            "extended-annotation part of a chromosome written after the chromosome's processed lock (kill + resume)",
            "GFFPrinter.printed_gene_ids made local to dump() (gene record repeated per region)",
            "sum_intervals_from_point mutates the caller's exon list in place (--sqanti_output aliases it with the model)"],
    "C04": ["`>` -> `>=` in near-duplicate novel model removal", "known-chain suppression test made dead", "class-level known_introns never reset",
            "model rejected by the late MAPQ filter keeps its reads (delete_from_storage dropped)",
            ".nic/.nnic decided from the delta-tolerant intron profile instead of exact annotated introns",
            "detect_similar_isoforms skipping two-exon models (mono-intronic duplicates)",
            "validate_exons rejects one-base exons with strict < (model dropped from the GTF, reads still listed)",
            "can_collapse accepts a substitute intron abutting the next intron (zero-length exon)",
            "get_clean_strand returns '-' for chains without any canonical site (only_canonical level)"],
    "C05": ["in-memory storage end-index fill loop", "index mix-up in MultimapResolver.find_duplicates", "split_coverage_regions single-bin / last-bin", "in-memory storage [end_bin + 1]",
            "multimappers_counts bulk update", "alignment statistics counted per sub-region",
            "lost parentheses: simple_alignments_mapq_cutoff applied to every intergenic alignment",
            "alignment_stat_counter not reset between experiments (log statistics)",
            "TmpFileAssignmentPrinter skips assignments whose isoform_matches list is empty",
            "BAMOnlineMerger._set stops filling at the first file without alignments",
            "forward_alignments drops alignments starting before a sub-region (cluster start at a bin boundary)"],
    "C06": ["mutable default argument forbidden_ids=set()", "BasicReadAssignment.__getstate__ field order", "set iteration order in group ids / gene_ids", "class-level StrandDetector.strand_dict",
            "running minimum dropped from InMemoryAlignmentStorage.fill_index",
            "BasicReadAssignment.__init__ stores the real penalty score (in-memory path only)",
            "pre_filter_transcripts writes the raised coverage cut-off into the shared args object (-t 1 vs -t N)",
            "select_noninformative tie-break by the per-process assignment_id",
            "linear grouped count file opened in append mode (repetition into the same folder doubles it)",
            "select_reference_gene sort key without the gene id (hash-order tie)"],
    "C07": ["stage lock kept by fresh runs", "skip-if-processed branch after ReadAssignmentAggregator construction", "lock removal order; unaligned count on resume; stale locks with --force",
            "clean_locks before a lazy map()", "clean_locks with sample.out_raw_file instead of dump_filename (--read_assignments runs)",
            "AssignedFeatureCounter truncates the matrix file instead of the linear counts file",
            "skip-if-collected branch on --resume returns fewer read ids (collect_reads_in_parallel)",
            "resume skips the read-group table split when part files merely exist",
            "sample lock written inside the with-block of the info file (lock before flush)",
            "resume adopts an existing database file in the output folder when the cache lookup fails"],
    "C08": ["gene-level type used for the 'primary unique' test", "per-chromosome de-duplication of processed read ids", "select_noninformative tie-break; __eq__ on isoform order",
            "ReadAssignmentLoader.get_next applies the last verdict to every alignment on the chromosome", "BasicReadAssignment.__setstate__ swaps genes and isoforms",
            "find_duplicates position/index mix-up (same as an earlier C05 idea)",
            "resolved list written to the multimapper files only when something was suspended (tie verdict lost)",
            "supplementary records dropped only with --no_secondary in process_genic",
            "filter_assignments builds the keep set before de-duplication (duplicates never suspended)",
            "select_best_assignment: inconsistent primary checked before consistent alignments"],
    "C09": ["read-group table split de-duplicates reads globally", "BAMOnlineMerger renumbers the files", "ReadIdSplitReadGrouper without delimiter; group id numbering",
            "ProfileFeatureCounter group_numeric_ids shared", "AlignmentTagReadGrouper warn-once flag guards the registration of NA",
            "matrix columns in natural order while values stay in lexicographic order",
            "stale loop variable in forward_counts (group of another read in transcript-model grouped counts)",
            "read_group lock written before prepare_read_groups (kill during the split + resume)",
            "AssignedFeatureCounter: falsy numeric group id 0 falls back to NA",
            "user's column/delimiter options re-applied to the per-chromosome group tables"],
    "C10": ["annotation exon-id cache shared across samples", "use_technical_replicas latched off", "alignment_stat_counter / detected_known_isoforms not reset",
            "YAML labels inherited by the next experiment", "experiment names stripped after the uniqueness check",
            "YAML illumina bam list out of step after an experiment without long-read files",
            "mutable default argument read_groups=set() in AbstractReadGrouper.__init__ (groups leak between experiments, -t 1)",
            "create_extended_storage caches the reference model list per chromosome and appends novel models to the cached list",
            "combine_table cuts the three statistics rows after the outer merge (feature ids sorting after '_')",
            "read-group table cached per run together with the processed-reads set (experiments sharing read ids)"],
    "C11": ["polyT twin measures to the wrong exon end", "is_start_internal tests inc[0]", "Canonical flag for strand '.'; path order in construct_fl_isoforms; isoforms sharing an intron chain; thread_starts tolerance",
            "terminal-exon alternation branch compares with the wrong length", "ExonCorrector splice-site selection uses the left-end window for right ends",
            "polyT side of NonOverlappingFeaturesProfileConstructor uses +delta like the polyA side",
            "polyT side of the novel mono-exon filter (construct_monoexon_novel) checks the polyA exons",
            "correct_novel_transcript_ends scans read ends ascending (innermost instead of outermost end)",
            "starting_known_positions keyed by the last intron instead of the first",
            "is_start_trusted uses mapped_strand (record orientation) instead of the assigned strand"],
    "C12": ["`all` instead of `any` when skipping empty chromosomes", "make-style mtime freshness test in find_converted_db", "ungrouped exon/intron counters take the file label",
            "unaligned reads counted for the first BAM only",
            "BAM merge key starts with reference_id (files with differently ordered @SQ lines)",
            "stale uncompressed copy of a plain-gzip reference reused from the output folder",
            "BAMOnlineMerger._set numbers the non-empty iterators by rank (files empty in a region)",
            "BAMOnlineMerger.get fast path peeks queue[-1] (three or more files)",
            "write_string length prefix in characters instead of bytes (non-ASCII file labels)"],
    "C13": ["profile state -2 counted as exclusion", "single winner among equally close twin features", "class-level cache of set_feature_properties", "ProfileFeatureCounter.is_valid treats empty profiles as missing",
            "construct_exon_profile mapped region uses the END of the last block",
            "--delta 0 treated as 'not given' in set_matching_options",
            "ProfileFeatureCounter.dump: break instead of continue for a group without counts",
            "ProfileFeatureCounter.group_numeric_ids made a class attribute (shared between counters/chromosomes)",
            "polyT masking of the intron profile tests the feature start instead of its end"],
    "C14": ["right terminal-exon correction resets the corrected start", "match_genomic_features candidate-list position", "micro-intron-retention events regardless of the strategy flag",
            "add_polya_info refreshes read_end twice (polyT trimming keeps the old read_start)",
            "BEDPrinter chromEnd from the uncorrected alignment end",
            "--delta 0 treated as 'not given' (correction tolerance)",
            "correct_terminal_exons takes the fake_terminal_exons column of the strategy table",
            "get_read_blocks: X operations inside an open block not advanced (hoisted event sets)",
            "process_events advances behind the FIRST read intron of an event (events spanning three introns)"],
    "C15": ["BasicReadAssignment.serialize wrong type field", "save_info polyA count", "write_string byte length; read_dict signedness", "ReadAssignment.deserialize swaps internal polyA / polyT",
            "abridged reader sets end from the first exon",
            "TmpFileAssignmentPrinter skips assignments with an empty isoform_matches list",
            "resolved multi-mapper records written to the stream of the wrong chromosome (stale loop variable)",
            "--read_assignments run deletes the saved assignments it was started from",
            "BasicReadAssignment.__getstate__ order (pickle path)",
            "IsoformMatch.deserialize goes through the constructor, which drops 'none' events"],
    "C16": ["flattened condition in the N branch of get_read_blocks", "truthiness test on polyA/polyT exon counts", "dist == 0 sentinel in shift_polya/shift_polyt", "bare hard clip in polya_finder",
            "PolyAFixer.correct_read_info keep-one-exon guard split per tail",
            "get_read_blocks rewritten with a 0-based cursor and truthiness tests (alignments starting at base 1)",
            "stale local alias of the exon list in AlignmentInfo.add_polya_info",
            "CigarEvent helper sets built once: seq_mismatch (X) missing from the block-opening set",
            "external_polyt_pos shifted with polya_exon_count",
            "find_polyt_head: uncapped to_check_end reused for the coordinate conversion (short reads)"],
    "C17": ["`while` -> `if` when skipping reserved id numbers", "class-level GFFPrinter exon_id cache", "get_id returning bare numbers; exon ids colliding with reference ids",
            "reference numbers not reserved when the chromosome name contains a dot", "GFFPrinter.printed_gene_ids keeps only the previous region",
            "novel unspliced gene ids without the chromosome name",
            "reference exon ids preloaded once per (start, end), strand ignored",
            "GFFPrinter looks exon ids up with the gene record's strand (gene with transcripts on both strands)",
            "detected_known_isoforms guard dropped on the full-length path (reference isoform reported from two clusters)",
            "transcript id built from value+1, distributor advanced afterwards (reserved numbers not skipped)"],
    "C18": ["class-level canonical-site memo without chromosome", "annotation majority decides the strand of an intron annotated on both strands", "memo keyed by intron only; reference region too short after reload",
            "get_strand: tie no longer falls back to tails", "select_reference_gene called with the clean strand (strand inherited from any gene sharing an intron)", "case-sensitive comparison with a soft-masked reference",
            "check_sites_are_canonical for undefined strand: per-intron either-strand test",
            "reference window padded and clamped at the start of the sequence (offsets shifted for loci starting within 20 bases)",
            "stale uncompressed copy of a plain-gzip reference reused (flags follow another genome)",
            "TSV printer passes the isoform's strand to check_sites_are_canonical",
            "get_strand called with (has_polyt, has_polya) swapped at the model-construction site"],
    "C19": ["guard dropped in GeneInfo.split_exons", "jaccard_similarity double-counts a block", "truncate_read_to_polya boundaries", "interval_bin_search rewritten with bisect",
            "construct_profile_for_features advances both pointers on a match",
            "sum_intervals_to_point off by one at interval ends",
            "GeneInfo.from_models builds isoform profiles with the matching delta comparator",
            "NonOverlappingFeaturesProfileConstructor calls the comparator with swapped arguments",
            "read_coverage_fraction early exit treats touching intervals as disjoint",
            "args.delta = args.delta or strategy.delta (explicit 0 lost; profile constructors get the preset's tolerance)"],
    "C20": ["fixed temporary file name in the atomic JSON writer", "start-up housekeeping deletes other processes' temporary files", "check-then-create of the per-user cache folder",
            "database freshness test weakened to >= in find_converted_db",
            "converted database written to a shared --genedb_output folder; check-then-create of that folder",
            "convert_db removes the superseded database another run is still working with",
            "cache files created with open(...,'x') and filled afterwards (empty file visible to other runs)",
            "store_alignment rewrites alignment_config.json in place (not atomically)",
            "convert_db merges records written meanwhile with a loop variable shadowing gtf_filename (database filed under another annotation)"],
}

TEMPLATE = open(os.path.join(os.path.dirname(os.path.abspath(__file__)), "seed_prompt_template.txt")).read()


def main():
    suffix = sys.argv[1]
    root = "/tmp/seed_wt"
    os.makedirs(root, exist_ok=True)
    props = {json.loads(l)["id"]: json.loads(l) for l in open("/verif/properties.jsonl")}
    for pid, p in props.items():
        wt = "%s/%s_%s" % (root, pid, suffix)
        subprocess.run(["git", "-C", "/repo", "worktree", "add", "--detach", "-f", wt, "HEAD"], check=True, capture_output=True)
        json.dump(p, open(wt + "/PROPERTY.json", "w"), indent=1)
        t = TEMPLATE.replace("__WT__", wt).replace("__PROPERTY__", json.dumps(p, indent=1))
        t = t.replace("__USED__", "\n".join("- " + u for u in USED[pid]))
        open("%s/PROMPT_%s_%s.txt" % (root, pid, suffix), "w").write(t)
    print("prepared %d worktrees and prompts under %s" % (len(props), root))


if __name__ == "__main__":
    main()
