#!/usr/bin/env python3
"""Evaluate seeded changes: tools/seeded_eval.py [--tier quick|thorough] [--checks C01,C02|all|own] <seeded dir> [...]

For each /verif/seeded/<id>/ (patch.diff [+ demo.py] + meta.json):
  1. a scratch git worktree of /repo's HEAD is created under /tmp, patch.diff applied;
  2. the repository's own tests (tests/console_test.py excluded: it fails offline even on the pristine tree) must still pass;
  3. the demonstration, if present, must fail on the patched tree and pass on a pristine one;
  4. the selected checks are run with VERIF_REPO pointing at the patched tree; a check 'detects' the change when it exits 1 with a
     VIOLATION line.
Results are merged into meta.json ("evaluation").  Nothing is ever applied to /repo itself.
"""
import argparse
import json
import os
import shutil
import subprocess
import sys
import tempfile
import time

VERIF = os.path.dirname(os.path.dirname(os.path.abspath(__file__)))
REPO = "/repo"
PY = "/venv/bin/python"


def sh(cmd, **kw):
    return subprocess.run(cmd, stdout=subprocess.PIPE, stderr=subprocess.STDOUT, **kw)


def evaluate(sdir, checks, tier, run_tests=True, seeds=(0,)):
    sdir = os.path.abspath(sdir)
    sid = os.path.basename(sdir.rstrip("/"))
    meta_p = os.path.join(sdir, "meta.json")
    meta = json.load(open(meta_p)) if os.path.exists(meta_p) else {}
    patch = os.path.join(sdir, "patch.diff")
    base = tempfile.mkdtemp(prefix="seeded_%s_" % sid)
    patched = os.path.join(base, "patched")
    pristine = os.path.join(base, "pristine")
    res = {"id": sid, "at": time.strftime("%Y-%m-%d %H:%M:%S"), "repo_head": sh(["git", "-C", REPO, "rev-parse", "--short", "HEAD"]).stdout.decode().strip()}
    try:
        for d in (patched, pristine):
            os.makedirs(d)
            p = subprocess.Popen(["git", "-C", REPO, "archive", meta.get("base_commit", "HEAD")], stdout=subprocess.PIPE)
            subprocess.run(["tar", "-x", "-C", d], stdin=p.stdout, check=True)
            p.wait()
            sh(["git", "init", "-q"], cwd=d)
        a = sh(["git", "apply", "--whitespace=nowarn", patch], cwd=patched)
        if a.returncode != 0:
            # context lines moved by later repairs of the tree: retry with GNU patch (fuzz 3); recorded in the result
            a2 = sh(["patch", "-p1", "-F3", "--no-backup-if-mismatch", "-i", patch], cwd=patched)
            if a2.returncode == 0:
                a = a2
                res["patch_applied_with_fuzz"] = True
        res["patch_applies"] = a.returncode == 0
        if a.returncode != 0:
            res["patch_error"] = a.stdout.decode()[-400:]
            return res
        if run_tests:
            t = sh([PY, "-m", "pytest", "-q", "-p", "no:cacheprovider", "--timeout=900", "--ignore=tests/console_test.py", "-x"], cwd=patched,
                   env=dict(os.environ, PYTHONDONTWRITEBYTECODE="1"))
            tail = t.stdout.decode().strip().splitlines()[-1] if t.stdout.strip() else ""
            res["repo_tests_pass"] = t.returncode == 0
            res["repo_tests_tail"] = tail
        demo = os.path.join(sdir, "demo.py")
        if os.path.exists(demo):
            env = dict(os.environ, PYTHONDONTWRITEBYTECODE="1", PYTHONWARNINGS="ignore::SyntaxWarning")
            try:
                d1 = sh([PY, demo, patched], env=env, timeout=900)
                d0 = sh([PY, demo, pristine], env=env, timeout=900)
                res["demo_fails_on_patched"] = d1.returncode != 0
                res["demo_passes_on_pristine"] = d0.returncode == 0
                res["demo_patched_tail"] = d1.stdout.decode()[-300:]
                if d0.returncode != 0:
                    res["demo_pristine_tail"] = d0.stdout.decode()[-300:]
            except subprocess.TimeoutExpired:
                res["demo_timeout"] = True
        det = {}
        for c in checks:
            for seed in seeds:
                env = dict(os.environ, VERIF_REPO=patched, VERIF_SEED=str(seed), VERIF_EVIDENCE_DIR=os.path.join(base, "evidence"),
                           VERIF_REPLAY_DIR=os.path.join(base, "replay"))
                t0 = time.time()
                try:
                    r = sh([os.path.join(VERIF, "check"), c, "--tier", tier], env=env, cwd=VERIF, timeout=3600)
                    out = r.stdout.decode()
                    viol = [l for l in out.splitlines() if l.startswith("VIOLATION")]
                    keys = sorted(set(l.split("violation key=")[1].split(":")[0] + ":" + ":".join(l.split("violation key=")[1].split(": ")[0].split(":")[1:3])
                                      for l in out.splitlines() if "violation key=" in l))[:6]
                    det["%s/seed%d" % (c, seed)] = {"exit": r.returncode, "detected": r.returncode == 1 and bool(viol), "keys": keys,
                                                    "wall_s": round(time.time() - t0, 1),
                                                    "tail": "" if r.returncode in (0, 1) else out[-300:]}
                except subprocess.TimeoutExpired:
                    det["%s/seed%d" % (c, seed)] = {"exit": None, "detected": False, "keys": [], "tail": "timeout"}
        res["checks"] = det
        res["tier"] = tier
        res["detected_by"] = sorted(set(k.split("/")[0] for k, v in det.items() if v["detected"]))
    finally:
        shutil.rmtree(base, ignore_errors=True)
    meta.setdefault("evaluations", [])
    meta["evaluations"] = [e for e in meta["evaluations"] if not (e.get("tier") == tier and set(e.get("checks", {})) == set(res.get("checks", {})))]
    meta["evaluations"].append(res)
    meta["detected_by"] = sorted(set(meta.get("detected_by", [])) | set(res.get("detected_by", [])))
    json.dump(meta, open(meta_p, "w"), indent=1)
    return res


def main():
    ap = argparse.ArgumentParser()
    ap.add_argument("--tier", default="quick")
    ap.add_argument("--checks", default="own")
    ap.add_argument("--no-tests", action="store_true")
    ap.add_argument("--seeds", default="0")
    ap.add_argument("dirs", nargs="+")
    a = ap.parse_args()
    allc = ["C%02d" % i for i in range(1, 21)]
    for d in a.dirs:
        meta_p = os.path.join(d, "meta.json")
        meta = json.load(open(meta_p)) if os.path.exists(meta_p) else {}
        if a.checks == "own":
            checks = [meta.get("property") or os.path.basename(d.rstrip("/")).split("-")[1]]
        elif a.checks == "all":
            checks = allc
        else:
            checks = a.checks.split(",")
        r = evaluate(d, checks, a.tier, run_tests=not a.no_tests, seeds=[int(x) for x in a.seeds.split(",")])
        print(json.dumps({k: v for k, v in r.items() if k not in ("checks",)}))
        for k, v in r.get("checks", {}).items():
            print("   ", k, "detected" if v["detected"] else "MISSED (exit %s)" % v["exit"], v["keys"][:3], v.get("tail", "")[:200])


if __name__ == "__main__":
    main()
