#!/bin/bash
# Runs the repository's pinned test-suite (guard off) and compares with /root/.vp/BASELINE.json stable_pass.
unset ABLAB_ISOQUANT_VERIF VERIF_MON
J=$(mktemp /tmp/junit.XXXXXX.xml)
(cd /repo && /venv/bin/python -m pytest -ra -q -p no:cacheprovider --timeout=900 --continue-on-collection-errors --junitxml=$J >/dev/null 2>&1)
/venv/bin/python - "$J" <<'PY'
import sys, json, xml.etree.ElementTree as ET
base = set(json.load(open('/root/.vp/BASELINE.json'))['stable_pass'])
passed=set()
for tc in ET.parse(sys.argv[1]).getroot().iter('testcase'):
    ok = not any(ch.tag in ('failure','error','skipped') for ch in tc)
    if ok: passed.add(tc.get('classname')+'::'+tc.get('name'))
missing = sorted(base-passed)
print("baseline tests passing: %d / %d" % (len(base&passed), len(base)))
for m in missing[:20]: print("  NOT PASSING:", m)
sys.exit(1 if missing else 0)
PY
rc=$?
rm -f $J
(cd /repo && git status --short | head -5)
exit $rc
