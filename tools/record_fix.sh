#!/bin/bash
# usage: tools/record_fix.sh <Cxx> "<commit subject without 'fix: '>" "<what failed (known_findings text)>"
# commits the pending change in /repo as "fix: <subject>", writes the regression seed seeded/orig-<Cxx>-<hash>/ (reverse patch) and
# appends the fixed: line to known_findings.txt
P=$1; SUBJ=$2; WHAT=$3
cd /repo && git add -A && git commit -qm "fix: $SUBJ" || exit 2
H=$(git -C /repo rev-parse --short HEAD)
D=/verif/seeded/orig-$P-$H
mkdir -p $D
git -C /repo diff $H $H~1 -- src isoquant.py > $D/patch.diff
python3 - "$P" "$H" "$SUBJ" "$D" <<'PY'
import json, sys
p, h, subj, d = sys.argv[1:]
json.dump({"property": p, "origin": "reverse of repository fix commit %s (fix: %s): re-introduces a defect found on the original tree" % (h, subj),
           "needs_to_manifest": "see known_findings.txt entry for commit %s" % h, "kind": "regression (reverted fix)", "evaluations": [], "detected_by": []},
          open(d + "/meta.json", "w"), indent=1)
PY
echo "fixed: property=$P $H $WHAT" >> /verif/known_findings.txt
echo $H
