#!/usr/bin/env python3
"""Regenerates MANIFEST.json from the table below (run from /verif)."""
import json, os, sys
HERE = os.path.dirname(os.path.dirname(os.path.abspath(__file__)))
sys.path.insert(0, HERE)
from tools.manifest_table import CHECKS, NOT_APPLICABLE

def main():
    props = [json.loads(l)["id"] for l in open(os.path.join(HERE, "properties.jsonl"))]
    checks = []
    for pid in props:
        if pid not in CHECKS:
            continue
        c = CHECKS[pid]
        checks.append({
            "property_id": pid,
            "quick_cmd": "./check %s --tier quick" % pid,
            "thorough_cmd": "./check %s --tier thorough" % pid,
            "evidence_file": "/verif/evidence/%s.json" % pid,
            "replay_cmd_template": "./check %s --replay {path}" % pid,
            "engine": "vlib",
            "level_claimed": {"category": c.get("level", "exploration"), "text": c["text"], "design_ref": "DESIGN.md section 3, %s" % pid},
            "level_note": c["note"],
            "technique": c["technique"],
        })
    na = [{"property_id": p, "reason": NOT_APPLICABLE.get(p, "check not built yet (work in progress)")} for p in props if p not in CHECKS]
    m = {
        "version": 1,
        "setup_cmd": "./setup.sh",
        "hooks": {"guard": "ABLAB_ISOQUANT_VERIF",
                  "enable": "no source hooks in /repo: vlib/launch.py (started by the checks with ABLAB_ISOQUANT_VERIF=1 and VERIF_MON=<monitors>) wraps functions of /repo's modules in-process before isoquant.main() runs; forked workers inherit the wrappers",
                  "baseline_off_cmd": "cd /repo && /venv/bin/python -m pytest -ra -q -p no:cacheprovider --timeout=900 --continue-on-collection-errors",
                  "source_commits": [], "add_only": True},
        "engines": [{"name": "vlib", "path": "/verif/vlib", "serves_properties": [c["property_id"] for c in checks],
                     "kind_free_text": "runtime monitoring: synthetic-world workload generator, in-process monitors (monkeypatch launcher), offline oracles over recorded events and documented output files"}],
        "checks": checks,
        "notes": "Runtime monitoring only; verdicts mean 'held on the executions observed'. See DESIGN.md.",
        "not_applicable": na,
    }
    json.dump(m, open(os.path.join(HERE, "MANIFEST.json"), "w"), indent=1)
    print("checks:", len(checks), "not_applicable:", len(na))

if __name__ == "__main__":
    main()
