#!/bin/bash
# usage: tools/sweep.sh <tier> <seed> [checks...]   -- runs checks sequentially, prints one line per check
tier=$1; seed=$2; shift 2
checks="$@"
[ -z "$checks" ] && checks="C01 C02 C03 C04 C05 C06 C07 C08 C09 C10 C11 C12 C13 C14 C15 C16 C17 C18 C19 C20"
for c in $checks; do
  out=$(VERIF_SEED=$seed ./check $c --tier $tier 2>&1)
  rc=$?
  echo "$c seed=$seed tier=$tier rc=$rc :: $(echo "$out" | grep -E "^(HELD|VIOLATION|INCONCLUSIVE)" | head -2 | tr '\n' ' ' | cut -c1-200)"
  if [ $rc -ne 0 ]; then echo "$out" | grep -E "violation key|INCONCLUSIVE" | head -8 | cut -c1-400; fi
done
