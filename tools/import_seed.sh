#!/bin/bash
# usage: tools/import_seed.sh C02 g 7   -> copies /tmp/seed_wt/C02_g/seeded_demo into seeded/agent-C02-g, writes meta.json, evaluates with the own check
P=$1; S=$2; R=$3
D=/verif/seeded/agent-$P-$S
mkdir -p $D
cp /tmp/seed_wt/${P}_$S/seeded_demo/demo.py /tmp/seed_wt/${P}_$S/seeded_demo/patch.diff /tmp/seed_wt/${P}_$S/seeded_demo/notes.md $D/ || exit 2
# the patch must contain source changes only
git -C /tmp/seed_wt/${P}_$S diff -- isoquant.py src > $D/patch.diff
python3 - "$P" "$R" "$D" <<'PY'
import json, sys
p, r, d = sys.argv[1:]
json.dump({"property": p, "origin": "round %s: written by an independent sub-agent that saw only the property text, a list of already-used ideas to avoid, and a scratch worktree" % r,
           "kind": "seeded change", "needs_to_manifest": "see notes.md", "evaluations": [], "detected_by": []}, open(d + "/meta.json", "w"), indent=1)
PY
/venv/bin/python /verif/tools/seeded_eval.py --tier quick --checks own $D 2>&1 | tail -3 | cut -c1-600
