"""C13 — exon/intron inclusion and exclusion counts equal a recount from the alignments.

Monitor: offline checker over *.exon_counts.tsv, *.intron_counts.tsv and the grouped variants of CLI runs versus the input GTF
and the processed reads (`exons` column of read_assignments.tsv, one record per (read, chr, exons)).
Oracle (three-valued, this file): per (read, feature) include / exclude / neither / borderline, giving an interval [lo, hi]
for every count; rows of one feature are aggregated by (chr, start, end, strand, group) before comparison.
"""
import os
import shutil
from collections import defaultdict

from vlib import runner, pipeline, world, world2, parse
from vlib.oracles import weights

LEVEL = "exploration"
DELTA = {"exact": 0, "precise": 4, "default": 6, "loose": 12}


def annotated_features(w):
    exons = defaultdict(lambda: {"strands": set(), "genes": set()})
    introns = defaultdict(lambda: {"strands": set(), "genes": set()})
    for t in w.all_transcripts():
        for e in t.exons:
            exons[(t.chrom, e[0], e[1])]["strands"].add(t.strand)
            exons[(t.chrom, e[0], e[1])]["genes"].add(t.gene_id)
        for i in t.introns:
            introns[(t.chrom, i[0], i[1])]["strands"].add(t.strand)
            introns[(t.chrom, i[0], i[1])]["genes"].add(t.gene_id)
    return exons, introns


def recount(records, exons, introns, delta, group_of):
    """returns feature -> group -> [inc_lo, inc_hi, exc_lo, exc_hi] for exons and introns"""
    ex_by_chr = defaultdict(list)
    in_by_chr = defaultdict(list)
    for (c, s, e) in exons:
        ex_by_chr[c].append((s, e))
    for (c, s, e) in introns:
        in_by_chr[c].append((s, e))
    ecount = defaultdict(lambda: defaultdict(lambda: [0, 0, 0, 0]))
    icount = defaultdict(lambda: defaultdict(lambda: [0, 0, 0, 0]))
    for r in records:
        rex = r["exons"]
        if not rex:
            continue
        c = r["chr"]
        g = group_of(r["read"])
        rin = parse.introns_of(rex)
        span = (rex[0][0], rex[-1][1])
        first_end, last_start = rex[0][1], rex[-1][0]
        for f in ex_by_chr[c]:
            if f[1] < span[0] - delta - 1 or f[0] > span[1] + delta + 1:
                continue
            matches = [e for e in rex if abs(e[0] - f[0]) <= delta and abs(e[1] - f[1]) <= delta]
            cell = ecount[(c, f[0], f[1])][g]
            if matches:
                e = matches[0]
                rivals = [f2 for f2 in ex_by_chr[c] if f2 != f and abs(e[0] - f2[0]) <= delta and abs(e[1] - f2[1]) <= delta]
                disjoint = e[1] < f[0] or f[1] < e[0]
                cell[1] += 1
                # several annotated features within delta of one read feature: one that is no further from the read feature than
                # any rival at BOTH ends is certainly contained; a strictly worse one may be reported as skipped
                best = all(abs(e[0] - f[0]) <= abs(e[0] - f2[0]) and abs(e[1] - f[1]) <= abs(e[1] - f2[1]) for f2 in rivals)
                if best and not disjoint:
                    cell[0] += 1
                else:
                    cell[3] += 1
                continue
            if len(rex) < 2:
                continue
            hi = f[0] >= first_end and f[1] <= last_start
            # certainly skipped: well inside the read's inner span, or lying entirely within ONE intron of the read (however close to its ends)
            lo = (f[0] > first_end + delta and f[1] < last_start - delta) or any(rex[i_][1] < f[0] and f[1] < rex[i_ + 1][0] for i_ in range(len(rex) - 1))
            if hi:
                cell[3] += 1
            if lo:
                cell[2] += 1
        for f in in_by_chr[c]:
            if f[1] < span[0] or f[0] > span[1]:
                continue
            matches = [i for i in rin if abs(i[0] - f[0]) <= delta and abs(i[1] - f[1]) <= delta]
            cell = icount[(c, f[0], f[1])][g]
            if matches:
                i = matches[0]
                rivals = [f2 for f2 in in_by_chr[c] if f2 != f and abs(i[0] - f2[0]) <= delta and abs(i[1] - f2[1]) <= delta]
                cell[1] += 1
                best = all(abs(i[0] - f[0]) <= abs(i[0] - f2[0]) and abs(i[1] - f[1]) <= abs(i[1] - f2[1]) for f2 in rivals)
                if best:
                    cell[0] += 1
                else:
                    cell[3] += 1
                continue
            ov = min(span[1], f[1]) - max(span[0], f[0]) + 1
            if ov >= 1:
                cell[3] += 1
            if ov >= 40:
                cell[2] += 1
    return ecount, icount


def run(chk, scratch):
    thorough = chk.tier == "thorough"
    chk.rule = ("annotations with overlapping exons, twin features 2-6 bp apart (reads exactly between them), exons shared by genes on both strands, contained features, alternative first/last exons; read sets "
                "with full/truncated/jittered/exon-skipping/intron-retaining reads and reads of unannotated isoforms; delta presets; --read_group tag. "
                "Every row of the exon/intron count tables (aggregated by feature and group) is compared with the recount interval; features absent "
                "from the table must have an interval containing 0. non-trivial = features with include > 0 and exclude > 0, or carrying a C/S/M flag")
    if thorough:
        jobs = [(chk.seed * 100 + si, strat, dt) for si in range(5) for strat in DELTA for dt in ("nanopore", "pacbio_ccs")]
        jobs += [(chk.seed * 100 + 7 + k, st, dt) for k, (st, dt) in enumerate((("default/--delta 0", "nanopore"), ("precise/--delta 0", "pacbio_ccs"),
                                                                                 ("loose/--delta 3", "nanopore"), ("exact/--delta 5", "assembly")))]
    else:
        jobs = [(chk.seed * 100, "default", "nanopore"), (chk.seed * 100 + 1, "exact", "pacbio_ccs"),
                (chk.seed * 100 + 2, "loose", "nanopore"), (chk.seed * 100 + 3, "precise", "assembly"),
                (chk.seed * 100 + 4, "default/--delta 0", "nanopore"), (chk.seed * 100 + 5, "loose/--delta 3", "pacbio_ccs")]

    def one(job):
        seed, strat, dt = job
        d = os.path.join(scratch, "w%d_%s_%s" % (seed, strat.replace("/", "_").replace(" ", ""), dt))
        w = world2.rich_world(seed, n_chroms=3, genes_per_chrom=4, reads_per_t=6, hidden_cov=5, multimappers=False, unmapped=0,
                              zoo=tuple(z for z in world2.ZOO_ALL if z != "twins"))
        # twin features: annotated introns / exons that differ by 2..6 bp at one boundary, with reads exactly between the two
        n0 = len(w.reads)
        world2.add_twin_loci(w, per_chrom=3)
        # annotated exons that hug a neighbouring exon from inside the intron: an alternative first exon beginning 2-5 bp after the end of the
        # first exon of another isoform, and one ending 2-5 bp before the start of its last exon; reads of the isoform that skips both
        from vlib.world import Gene as _G, Transcript as _T
        for ci_, chrom_ in enumerate(w.chrom_order):
            p_ = max([g_.end for g_ in w.genes if g_.chrom == chrom_] + [1000]) + 3000
            if p_ + 4000 > w.chrom_len(chrom_):
                continue
            st_ = "+-"[ci_ % 2]
            off_ = 2 + (seed + ci_) % 4
            e1, e3 = (p_, p_ + 200), (p_ + 2000, p_ + 2300)
            g_ = _G("HUG%d" % (ci_ + 1), chrom_, st_)
            g_.transcripts.append(_T(g_.id + ".t1", g_.id, chrom_, st_, [e1, e3], True, "skips-hugging-exons"))
            g_.transcripts.append(_T(g_.id + ".t2", g_.id, chrom_, st_, [(e1[1] + off_, e1[1] + 100), (p_ + 1000, p_ + 1100), e3], True, "hugging-exon-after-first"))
            g_.transcripts.append(_T(g_.id + ".t3", g_.id, chrom_, st_, [e1, (p_ + 1000, p_ + 1100), (e3[0] - 100, e3[0] - off_)], True, "hugging-exon-before-last"))
            for t_ in g_.transcripts:
                for intr in t_.introns:
                    w.plant_sites(chrom_, intr, st_)
            w.genes.append(g_)
            for j_ in range(7):
                w.make_read(chrom_, [(e1[0] + 3 * j_, e1[1]), (e3[0], e3[1] - 2 * j_)], truth={"src": g_.id + ".t1", "class": "exact"})
            for j_ in range(3):
                w.make_read(chrom_, list(g_.transcripts[1].exons), truth={"src": g_.id + ".t2", "class": "exact"})
        for i, rd in enumerate(w.reads[n0:]):
            rd.tags = [("RG", "g%d" % (i % 3))]
            rd.file_idx = i % 2
        # a group that is absent from the chromosome processed first (the longest one)
        longest = max(w.chrom_order, key=w.chrom_len)
        moved = {rd.name for rd in w.reads if rd.chrom == longest and dict(rd.tags).get("RG") == "g0"}
        for rd in w.reads:
            if rd.name in moved:       # all records of a read keep one group
                rd.tags = [("RG", "g1")]
        pipeline.write_world(w, d)
        out = os.path.join(d, "out")
        # 'preset/--delta N': an explicit --delta overrides the tolerance of the preset (0 is a legal value: exact comparison)
        explicit = ["--delta", strat.split("--delta ")[1]] if "--delta" in strat else []
        r = pipeline.run(d, out, data_type=dt, threads=1 + seed % 2, extra=["--count_exons", "--read_group", "tag:RG", "--matching_strategy", strat.split("/")[0]] + explicit +
                         ["--no_model_construction"])
        return job, d, w, out, r
    rows_checked = 0
    exact_rows = 0
    for job, d, w, out, r in runner.parallel(one, jobs, workers=8):
        seed, strat, dt = job
        delta = int(strat.split("--delta ")[1]) if "--delta" in strat else DELTA[strat]
        desc = "world=%d matching=%s (delta %d) data_type=%s" % (seed, strat, delta, dt)
        wit = {"world_seed": seed, "matching_strategy": strat, "data_type": dt}
        if r["rc"] is None:
            chk.inconclusive.append("watchdog expired: " + desc)
            continue
        if r["rc"] != 0:
            chk.violation("run-failed", "%s: %s" % (desc, pipeline.fail_text(r)), wit)
            continue
        o = pipeline.Outputs(out)
        recs = weights.group_records(o.assignments())
        group = {rd.name: dict(rd.tags).get("RG", "NA") for rd in w.reads}
        exons, introns = annotated_features(w)
        for grouped in (False, True):
            ecount, icount = recount(recs, exons, introns, delta, (lambda rid: group.get(rid, "NA")) if grouped else (lambda rid: "NA"))
            for kind, feats, counts, fname in (("exon", exons, ecount, "exon"), ("intron", introns, icount, "intron")):
                rows = parse.read_feature_counts(o.path("%s_%scounts.tsv" % (fname, "grouped_" if grouped else "")))
                agg = defaultdict(lambda: [0, 0])
                meta = {}
                for row in rows:
                    k = (row["chr"], row["start"], row["end"])
                    agg[(k, row["group"])][0] += row["inc"]
                    agg[(k, row["group"])][1] += row["exc"]
                    meta.setdefault(k, set()).add((row["strand"], row["genes"], row["flags"]))
                # row identity
                for k, ms in meta.items():
                    if k not in feats:
                        chk.violation("row-is-not-an-annotated-%s" % kind, "%s: %s row %s matches no annotated %s" % (desc, fname, k, kind), wit)
                        continue
                    for strand, genes, flags in ms:
                        if set(strand) != feats[k]["strands"]:
                            chk.violation("row-strand:%s" % kind, "%s: %s %s strand '%s', annotation %s" % (desc, kind, k, strand, sorted(feats[k]["strands"])), wit)
                        if set(genes.split(",")) != feats[k]["genes"]:
                            chk.violation("row-genes:%s" % kind, "%s: %s %s genes '%s', annotation %s" % (desc, kind, k, genes, sorted(feats[k]["genes"])), wit)
                        if genes.split(",") != sorted(genes.split(",")):
                            chk.violation("row-genes-unsorted:%s" % kind, "%s: %s %s genes '%s'" % (desc, kind, k, genes), wit)
                # counts
                keys = set(agg) | set((k, g) for k in counts for g in counts[k])
                for (k, g) in keys:
                    obs = agg.get((k, g), [0, 0])
                    lohi = counts.get(k, {}).get(g, [0, 0, 0, 0])
                    rows_checked += 1
                    chk.note()
                    if lohi[0] == lohi[1] and lohi[2] == lohi[3]:
                        exact_rows += 1
                    flags = "".join(sorted(set("".join(m[2] for m in meta.get(k, ())))))
                    if (obs[0] > 0 and obs[1] > 0) or any(ch in flags for ch in "CSM"):
                        chk.nontrivial.add((seed, kind, k, g, grouped))
                    if not (lohi[0] <= obs[0] <= lohi[1]):
                        chk.violation("include-count-differs:%s%s" % (kind, ":grouped" if grouped else ""),
                                      "%s: %s %s group %s include %d, recount interval [%d, %d]" % (desc, kind, k, g, obs[0], lohi[0], lohi[1]), wit)
                    if not (lohi[2] <= obs[1] <= lohi[3]):
                        chk.violation("exclude-count-differs:%s%s" % (kind, ":grouped" if grouped else ""),
                                      "%s: %s %s group %s exclude %d, recount interval [%d, %d]" % (desc, kind, k, g, obs[1], lohi[2], lohi[3]), wit)
                if grouped:
                    # grouped rows partition the ungrouped ones
                    un = defaultdict(lambda: [0, 0])
                    for row in parse.read_feature_counts(o.path("%s_counts.tsv" % fname)):
                        un[(row["chr"], row["start"], row["end"])][0] += row["inc"]
                        un[(row["chr"], row["start"], row["end"])][1] += row["exc"]
                    gs = defaultdict(lambda: [0, 0])
                    for (k, g), v in agg.items():
                        gs[k][0] += v[0]
                        gs[k][1] += v[1]
                    for k in set(un) | set(gs):
                        if un.get(k, [0, 0]) != gs.get(k, [0, 0]):
                            chk.violation("grouped-rows-do-not-partition:%s" % kind, "%s: %s %s ungrouped %s, groups sum to %s" %
                                          (desc, kind, k, un.get(k), gs.get(k)), wit)
        chk.sample({"run": desc, "records": len(recs), "annotated_exons": len(exons), "annotated_introns": len(introns)}, limit=3)
        if chk.violations and not getattr(chk, "witness_files", None):
            chk.witness_files = [os.path.join(d, f) for f in ("g.fa", "a.gtf", "r.bam", "r.bam.bai")]
        shutil.rmtree(out, ignore_errors=True)
    chk.extra.update({"rows_checked": rows_checked, "rows_with_degenerate_interval": exact_rows,
                      "share_exact": round(exact_rows / rows_checked, 4) if rows_checked else 0})
    chk.assumptions = ["processed reads = distinct (read id, chr, exons) records of read_assignments.tsv",
                       "interval oracle: include exact unless two annotated features are within delta of one read feature and the feature is further from it than a rival at one end; exon exclude between "
                       "'strictly inside by more than delta' and 'inside [first exon end, last exon start]'; intron exclude between overlap >= 40 and overlap >= 1"]
    chk.inconclusive_if(rows_checked == 0, "no row checked")
    chk.inconclusive_if(rows_checked and exact_rows / rows_checked < 0.5, "fewer than half of the rows have an exact expectation")
    chk.min_nontrivial = 10
