"""C16 — CIGAR -> exon blocks, polyA/polyT exon trimming.

Monitor: icontract post-condition on the real src.common.get_read_blocks (bound before AlignmentInfo imports it),
plus post-conditions evaluated on real AlignmentInfo objects built from pysam records and trimmed by the real
add_polya_info with the real PolyAFinder / PolyAFixer.
Oracle: independent CIGAR walk (this file), independent re-computation of the projected tail position.
"""
import itertools
import os
import random
import sys
from concurrent.futures import ProcessPoolExecutor
from types import SimpleNamespace

OPS = {"M": 0, "I": 1, "D": 2, "N": 3, "S": 4, "H": 5, "=": 7, "X": 8}
OPC = {v: k for k, v in OPS.items()}
MATCH = (0, 7, 8)


# ------------------------------------------------------------------ oracle
def walk(ref_start0, cigar):
    """Independent CIGAR walk.  Returns (exons 1-based closed, read blocks 0-based closed, op index ranges)."""
    exons, rblocks, cblocks = [], [], []
    donly = []          # reference intervals of N-delimited segments made of deletions only (no aligned base)
    ref = ref_start0 + 1
    q = 0
    seg = None   # [ref_first, ref_last, q_first, q_last, op_first, op_last, has_match]
    for idx, (op, l) in enumerate(cigar):
        if op in (0, 7, 8, 1, 2):
            if seg is None:
                seg = [ref, ref - 1, q, q - 1, idx, idx, False]
            if op in MATCH:
                seg[1] = ref + l - 1
                seg[3] = q + l - 1
                seg[6] = True
                ref += l
                q += l
            elif op == 1:
                seg[3] = q + l - 1
                q += l
            else:
                seg[1] = ref + l - 1
                ref += l
            seg[5] = idx
        elif op == 3:
            if seg is not None:
                if seg[6]:
                    exons.append((seg[0], seg[1])); rblocks.append((seg[2], seg[3])); cblocks.append((seg[4], seg[5]))
                elif seg[1] >= seg[0]:
                    donly.append((seg[0], seg[1]))
                seg = None
            ref += l
        elif op == 4:
            if seg is not None:
                if seg[6]:
                    exons.append((seg[0], seg[1])); rblocks.append((seg[2], seg[3])); cblocks.append((seg[4], seg[5]))
                seg = None
            q += l
        elif op == 5:
            pass
    if seg is not None and seg[6]:
        exons.append((seg[0], seg[1])); rblocks.append((seg[2], seg[3])); cblocks.append((seg[4], seg[5]))
    elif seg is not None and seg[1] >= seg[0]:
        donly.append((seg[0], seg[1]))
    walk.last_donly = donly
    return exons, rblocks, cblocks


def in_domain(cigar):
    """SAM-valid, at least one aligned base. N-delimited segments WITHOUT an aligned base are allowed: they carry no
    read evidence and are expected to yield no exon (an insertion-only segment covers no reference position at all; for a
    deletion-only segment both readings - reported or dropped - are accepted), but they must not disturb the other exons."""
    core = [c for c in cigar if c[0] not in (4, 5)]
    if not core:
        return False
    return any(o in MATCH for o, l in core)


def blocks_equal_modulo_donly(result, ref_start, cigar):
    """compare (exons, read blocks) with the walk; exons equal to a deletion-only segment may be present or absent"""
    ex, rb, cb = walk(ref_start, cigar)
    donly = set(walk.last_donly)
    if list(result[0]) == ex and list(result[1]) == rb:
        return True
    if not donly:
        return False
    keep = [i for i, e in enumerate(result[0]) if tuple(e) not in donly]
    return [tuple(result[0][i]) for i in keep] == ex and [tuple(result[1][i]) for i in keep] == rb


def pattern_class(cigar):
    ops = [c[0] for c in cigar]
    cls = set()
    for i, o in enumerate(ops):
        if o == 3:
            if i > 0 and ops[i - 1] in (1, 2):
                cls.add("indel<N")
            if i + 1 < len(ops) and ops[i + 1] in (1, 2):
                cls.add("N>indel")
    core = [o for o in ops if o not in (4, 5)]
    if core and core[0] in (1, 2):
        cls.add("lead-indel")
    if core and core[-1] in (1, 2):
        cls.add("trail-indel")
    if 4 in ops:
        cls.add("S")
    if 5 in ops:
        cls.add("H")
    if ops.count(3) >= 2:
        cls.add("multiN")
    return tuple(sorted(cls))


# ------------------------------------------------------------------ enumeration
CLIPS_LEFT = [(), ((4, 2),), ((5, 2), (4, 2)), ((5, 2),)]
CLIPS_RIGHT = [(), ((4, 2),), ((4, 2), (5, 2)), ((5, 2),)]


def enum_cores(max_ops):
    core_ops = (0, 7, 8, 1, 2, 3)
    for n in range(1, max_ops + 1):
        for ops in itertools.product(core_ops, repeat=n):
            if any(ops[i] == ops[i + 1] for i in range(n - 1)):
                continue
            if ops[0] == 3 or ops[-1] == 3:
                continue
            yield ops


def _worker(job):
    """job = (kind, payload). Returns dict of counters and violations."""
    from vlib import repo_import
    repo_import.setup_path()
    import icontract
    common = repo_import.mod("src.common")

    class PostBroken(Exception):
        pass
    st = {"evals": 0}

    def blocks_match_walk(ref_start, cigar_tuples, result):
        st["evals"] += 1
        if not blocks_equal_modulo_donly(result, ref_start, cigar_tuples):
            return False
        ex, rb, cb = walk(ref_start, cigar_tuples)
        if len(result[0]) == len(ex):
            if len(result[2]) != len(cb):
                return False
            # cigar blocks: must start at the first op of the segment and cover its last op
            for (a, b), (oa, ob) in zip(result[2], cb):
                if a != oa or b < ob:
                    return False
        return True
    if not getattr(common.get_read_blocks, "_verif_wrapped", False):
        wrapped = icontract.ensure(blocks_match_walk, error=PostBroken)(common.get_read_blocks)
        wrapped._verif_wrapped = True
        common.get_read_blocks = wrapped
    ai_mod = repo_import.mod("src.alignment_info")
    import pysam
    hdr = pysam.AlignmentHeader.from_dict({"HD": {"VN": "1.6"}, "SQ": [{"SN": "c", "LN": 10_000_000}]})

    kind, payload = job
    res = {"n": 0, "viol": [], "classes": {}, "evals": 0, "ai": 0, "samples": []}

    def one(ref0, cigar, via_pysam):
        res["n"] += 1
        cls = pattern_class(cigar)
        res["classes"][cls] = res["classes"].get(cls, 0) + 1
        try:
            common.get_read_blocks(ref0, list(cigar))
        except PostBroken:
            got = common.get_read_blocks.__wrapped__(ref0, list(cigar)) if hasattr(common.get_read_blocks, "__wrapped__") else None
            res["viol"].append(("cigar-walk-mismatch", cigar_str(cigar), ref0, str(walk(ref0, cigar)[:2]), str(got)))
        except Exception as e:
            res["viol"].append(("cigar-walk-exception", cigar_str(cigar), ref0, repr(e), ""))
        if via_pysam:
            a = pysam.AlignedSegment(hdr)
            a.query_name = "q"
            a.reference_id = 0
            a.reference_start = ref0
            a.cigartuples = list(cigar)
            qlen = sum(l for o, l in cigar if o in (0, 1, 4, 7, 8))
            a.query_sequence = "C" * qlen
            try:
                info = ai_mod.AlignmentInfo(a)
                res["ai"] += 1
                ex, rb, cb = walk(ref0, cigar)
                if not blocks_equal_modulo_donly((info.read_exons, info.read_blocks), ref0, cigar):
                    res["viol"].append(("alignmentinfo-mismatch", cigar_str(cigar), ref0, str(ex), str(info.read_exons)))
                # the second CIGAR walker of the tree (concat_gapless_blocks over pysam's gapless blocks, then correct_bam_coords): same exons.
                # Judged for the shapes a mapper produces: every N-delimited segment has an aligned base, at most one deletion run in front
                # of its first aligned base and none behind its last one (the function is documented for gapless blocks joined by deletions)
                segs_, cur_ = [], []
                for op_, l_ in cigar:
                    if op_ == 3:
                        segs_.append(cur_); cur_ = []
                    elif op_ in (0, 7, 8, 1, 2):
                        cur_.append(op_)
                segs_.append(cur_)

                def _plain(sg):
                    ms = [k_ for k_, o_ in enumerate(sg) if o_ in (0, 7, 8)]
                    if not ms:
                        return False
                    return sum(1 for o_ in sg[:ms[0]] if o_ == 2) <= 1 and not any(o_ == 2 for o_ in sg[ms[-1] + 1:])
                if all(_plain(sg) for sg in segs_ if sg) and all(sg for sg in segs_):
                    try:
                        got2 = common.correct_bam_coords(common.concat_gapless_blocks(a.get_blocks(), a.cigartuples))
                        res["concat_cases"] = res.get("concat_cases", 0) + 1
                        if [tuple(x) for x in got2] != [tuple(x) for x in ex]:
                            res["viol"].append(("concat-gapless-blocks-mismatch", cigar_str(cigar), ref0, str(ex), str(got2)))
                    except Exception as e:
                        res["viol"].append(("concat-gapless-blocks-exception", cigar_str(cigar), ref0, repr(e), ""))
                # second, pysam-based oracle: aligned reference positions must be inside the exons and at exon ends
                refpos = a.get_reference_positions()
                cover = set()
                for s, e in info.read_exons:
                    cover.update(range(s, e + 1))
                if any((p + 1) not in cover for p in refpos):
                    res["viol"].append(("aligned-base-outside-exons", cigar_str(cigar), ref0, "", str(info.read_exons)))
            except PostBroken:
                res["viol"].append(("cigar-walk-mismatch", cigar_str(cigar), ref0, str(walk(ref0, cigar)[:2]), "via AlignmentInfo"))
            except Exception as e:
                res["viol"].append(("alignmentinfo-exception", cigar_str(cigar), ref0, repr(e), ""))

    if kind == "enum":
        cores, lens_mode, clip_mode = payload
        for ops in cores:
            n = len(ops)
            for lens in itertools.product((1, 3), repeat=n):
                core = tuple(zip(ops, lens))
                if not in_domain(core):
                    continue
                if clip_mode == "all":
                    clips = [(l, r) for l in CLIPS_LEFT for r in CLIPS_RIGHT]
                else:
                    clips = [((), ()), (CLIPS_LEFT[1], CLIPS_RIGHT[1]), (CLIPS_LEFT[2], ()), ((), CLIPS_RIGHT[3])]
                for l, r in clips:
                    cig = l + core + r
                    one(0 if (n + len(l)) % 2 else 999, cig, via_pysam=(res["n"] % 7 == 0))
                    if len(res["samples"]) < 3 and len(pattern_class(cig)) >= 2:
                        res["samples"].append(cigar_str(cig))
    elif kind == "random":
        seed, count = payload
        rng = random.Random(seed)
        for _ in range(count):
            n = rng.randint(3, 40)
            core = []
            last = None
            for i in range(n):
                while True:
                    o = rng.choice((0, 0, 0, 7, 8, 1, 2, 3, 3))
                    if o != last and not ((i == 0 or i == n - 1) and o == 3):
                        break
                last = o
                core.append((o, rng.choice((1, 2, 5, 30, 150, 1000)) if o != 3 else rng.choice((1, 50, 500, 20000))))
            core = tuple(core)
            if not in_domain(core):
                continue
            cig = rng.choice(CLIPS_LEFT) + core + rng.choice(CLIPS_RIGHT)
            one(rng.randint(0, 5_000_000), cig, via_pysam=True)
            if len(res["samples"]) < 2:
                res["samples"].append(cigar_str(cig))
    elif kind == "trim":
        seed, count = payload
        res.update(trim_cases(seed, count, repo_import, ai_mod, pysam, hdr))
    elif kind == "projection":
        seed, count = payload
        res.update(projection_cases(seed, count, repo_import, pysam, hdr))
    res["evals"] = st["evals"]
    res["classes"] = {"|".join(k): v for k, v in res["classes"].items()}
    return res


def cigar_str(cig):
    return "".join("%d%s" % (l, OPC[o]) for o, l in cig)


# ------------------------------------------------------------------ tail detection -> reference coordinate
def projection_cases(seed, count, repo_import, pysam, hdr):
    """The real PolyAFinder on records whose tail boundary lies INSIDE the aligned part, with insertions, deletions, =/X runs and introns
    between the boundary and the end of the alignment.  The read index the finder's window search returns is captured (the search itself is
    not re-implemented); the reference coordinate it is turned into is compared with the one pysam's get_aligned_pairs gives for that read
    base: polyA position = 1-based coordinate of the last base before the tail, polyT position = 0-based coordinate of the last base of
    the head (what the finder returns on plain M alignments)."""
    pf = repo_import.mod("src.polya_finder")
    rng = random.Random(seed)
    out = {"n": 0, "viol": [], "samples": [], "proj_judged": 0, "proj_classes": {}}

    class LoggingFinder(pf.PolyAFinder):
        def __init__(self, *a, **kw):
            pf.PolyAFinder.__init__(self, *a, **kw)
            self.log = []

        def find_polya(self, seq):
            r = pf.PolyAFinder.find_polya(self, seq)
            self.log.append(r)
            return r

    def rand_seq(n):
        return "".join(rng.choice("CGCGCGAT") for _ in range(n))
    W = 16
    for it in range(count):
        out["n"] += 1
        side = rng.choice(("A", "T"))
        # inner part of the alignment, then the stretch near the end that carries the tail boundary: <l>M [op] <r>M, the tail starts k bases
        # before the end of the aligned part (k may be smaller or larger than r, so the walk may or may not cross the operation)
        inner = [(0, rng.randint(60, 150)), (3, rng.choice((90, 200, 1500))), (0, rng.randint(40, 120))]
        l, r_ = rng.randint(8, 40), rng.randint(4, 40)
        op = rng.choice((None, (1, 1), (1, 2), (1, 5), (2, 1), (2, 3), (3, 150), (8, 2), "eq"))
        near = [(0, l)] + ([op] if isinstance(op, tuple) else []) + [(0, r_)]
        if op == "eq":
            near = [(7, l), (8, 1), (7, r_)]
        clip = rng.choice((0, 0, 3, 6, 25))
        k = rng.randint(14, 44)
        cig = inner + near
        qlen = sum(n for o, n in cig if o in (0, 1, 7, 8))
        body = list(rand_seq(qlen))
        # tail letters over the last k aligned read bases (incl. inserted ones) and the whole clip; one or two non-tail letters sprinkled in
        for q in range(max(0, qlen - k), qlen):
            body[q] = "A"
        for _ in range(rng.choice((0, 0, 1))):
            body[rng.randint(max(0, qlen - k + 3), qlen - 1)] = "C"
        if qlen - k - 1 >= 0:
            body[qlen - k - 1] = "C"
        seq = "".join(body) + "A" * clip
        cig2 = cig + ([(4, clip)] if clip else [])
        if side == "T":
            # mirror image: reverse the operations, reverse-complement the sequence
            cig2 = cig2[::-1]
            seq = seq[::-1].translate(str.maketrans("ACGT", "TGCA"))
        a = pysam.AlignedSegment(hdr)
        a.query_name = "p%d" % it
        a.reference_id = 0
        a.reference_start = rng.randint(100, 100000)
        a.cigartuples = cig2
        a.query_sequence = seq
        finder = LoggingFinder(W, 0.75)
        try:
            info = finder.detect_polya(a)
        except Exception as e:
            out["viol"].append(("tail-detection-exception", cigar_str(cig2), a.reference_start, repr(e), ""))
            continue
        if len(finder.log) != 4:
            continue
        pairs = {q: r for q, r in a.get_aligned_pairs() if q is not None}
        qs, qe = a.query_alignment_start, a.query_alignment_end       # aligned part of the read, 0-based, end exclusive
        # order of the four searches: external polyA, external polyT, internal polyA, internal polyT
        for idx, (nm, frm, to) in enumerate((("external_polya_pos", 2, 2 * W), ("external_polyt_pos", 2, 2 * W),
                                             ("internal_polya_pos", 4 * W, 2), ("internal_polyt_pos", 4 * W, 2))):
            got = getattr(info, nm)
            j = finder.log[idx]
            if got == -1 or j == -1:
                continue
            if "polya" in nm:
                P = max(0, qe - frm) + j                 # read index of the first tail base
                if P >= qe:
                    exp = a.reference_end + (P - qe)
                    cls = "tail-starts-in-the-clip"
                else:
                    if P - 1 < qs or pairs.get(P - 1) is None:
                        continue                         # the base before the tail is an inserted base: no coordinate of its own
                    exp = pairs[P - 1] + 1
                    cls = "tail-starts-in-the-aligned-part"
            else:
                to_check_end = min(len(seq), qs + frm + 1)
                Q = to_check_end - j - 1                 # read index of the last head base
                if Q <= qs:
                    exp = max(1, a.reference_start - (qs - Q))
                    cls = "head-ends-in-the-clip"
                else:
                    if Q >= qe or pairs.get(Q) is None:
                        continue
                    exp = max(1, pairs[Q])
                    cls = "head-ends-in-the-aligned-part"
            crossed = "plain"
            if cls.endswith("aligned-part"):
                lo_, hi_ = (P - 1, qe) if "polya" in nm else (qs, Q + 1)
                ops = set()
                qi = qs
                for o, n in a.cigartuples:
                    if o in (0, 7, 8, 1):
                        if qi < hi_ and qi + n > lo_ and o in (1, 8):
                            ops.add("IX"[o == 8])
                        qi += n
                    elif o in (2, 3):
                        if lo_ < qi < hi_:
                            ops.add("DN"[o == 3])
                crossed = "".join(sorted(ops)) or "plain"
            key = "%s/%s/%s" % (nm, cls, crossed)
            out["proj_classes"][key] = out["proj_classes"].get(key, 0) + 1
            out["proj_judged"] += 1
            if got != exp:
                out["viol"].append(("tail-position-not-the-coordinate-of-its-read-base:%s:%s" % (nm.split("_")[0], crossed), cigar_str(cig2), a.reference_start,
                                    "%s = %d for the read base at index %d" % (nm, exp, (P - 1) if "polya" in nm else Q), "%d" % got))
        if len(out["samples"]) < 2:
            out["samples"].append({"cigar": cigar_str(cig2), "positions": [getattr(info, nm_) for nm_ in POS_NAMES]})
    return out


# ------------------------------------------------------------------ tail trimming
def trim_cases(seed, count, repo_import, ai_mod, pysam, hdr):
    """Real AlignmentInfo.add_polya_info with the real finder on reads whose terminal exons are A/T runs,
    and with injected tail positions."""
    pf = repo_import.mod("src.polya_finder")
    pv = repo_import.mod("src.polya_verification")
    rng = random.Random(seed)
    out = {"n": 0, "viol": [], "trim_classes": {}, "samples": [], "trimmed": 0}

    def rand_seq(n):
        return "".join(rng.choice("CGCGAT") for _ in range(n))

    shared_finder = pf.PolyAFinder(16, 0.75)
    for it in range(count):
        out["n"] += 1
        max_fake = rng.choice((0, 20, 40))
        fixer = pv.PolyAFixer(SimpleNamespace(max_fake_terminal_exon_len=max_fake))
        finder = pf.PolyAFinder(16, 0.75)
        n_real = rng.randint(1, 4)
        n_a = rng.randint(0, 3)   # fake A exons at the right
        n_t = rng.randint(0, 3)   # fake T exons at the left
        pieces = []  # (kind, length)
        for _ in range(n_t):
            pieces.append(("T", rng.choice((3, 8, 17, 25, 40))))
        for i in range(n_real):
            pieces.append(("R", rng.randint(30, 200)))
        for _ in range(n_a):
            pieces.append(("A", rng.choice((3, 8, 17, 25, 40))))
        degenerate = rng.random() < 0.15
        if degenerate:
            # a short spliced alignment that is a T run (or an A run) from end to end: EVERY exon looks like an aligned tail
            kind = rng.choice("TA")
            pieces = [(kind, rng.choice((8, 12, 17, 20, 30))) for _ in range(rng.randint(2, 4))]
            if rng.random() < 0.5:
                pieces.append(("R", rng.randint(3, 8))) if kind == "T" else pieces.insert(0, ("R", rng.randint(3, 8)))
        if not degenerate and rng.random() < 0.04:
            # a T-run exon, a 5-6 base middle exon that reads like the end of the head AND the start of the tail, an A-run exon
            pieces = [("T", rng.choice((20, 30))), ("L" + rng.choice(("AATTT", "AATTTT", "AAATTT")), 0), ("A", rng.choice((30, 40)))]
            pieces[1] = (pieces[1][0], len(pieces[1][0]) - 1)
            degenerate = True
        # partial fake exons: real prefix then A's
        mix_right = n_a and rng.random() < 0.5
        mix_left = n_t and rng.random() < 0.5
        cigar, seq = [], []
        if rng.random() < 0.3:
            k = rng.randint(1, 30); cigar.append((4, k)); seq.append("T" * k if rng.random() < 0.7 else rand_seq(k))
        first = True
        for pi, (kind, L) in enumerate(pieces):
            if not first:
                cigar.append((3, rng.choice((5, 30, 120, 900))))
            first = False
            cigar.append((0, L))
            if kind == "R":
                seq.append(rand_seq(L))
            elif kind.startswith("L"):
                seq.append(kind[1:])
            elif kind == "A":
                pre = rng.randint(1, min(10, L - 1)) if (mix_right and L > 2) else 0
                seq.append(rand_seq(pre) + "A" * (L - pre))
            else:
                pre = rng.randint(1, min(10, L - 1)) if (mix_left and L > 2) else 0
                seq.append("T" * (L - pre) + rand_seq(pre))
        if rng.random() < 0.3:
            k = rng.randint(1, 30); cigar.append((4, k)); seq.append("A" * k if rng.random() < 0.7 else rand_seq(k))
        # hard clips (consume neither query nor reference): outside a soft clip, or on their own
        hard_left = rng.choice((0, 0, 0, 7, 40))
        hard_right = rng.choice((0, 0, 0, 7, 40))
        plain_cigar = list(cigar)
        if hard_left:
            cigar.insert(0, (5, hard_left))
        if hard_right:
            cigar.append((5, hard_right))
        a = pysam.AlignedSegment(hdr)
        a.query_name = "t%d" % it
        a.reference_id = 0
        a.reference_start = rng.randint(100, 100000)
        a.cigartuples = cigar
        a.query_sequence = "".join(seq)
        try:
            if hard_left or hard_right:
                # the same record without its hard clips must be processed identically
                b = pysam.AlignedSegment(hdr)
                b.query_name = a.query_name
                b.reference_id = 0
                b.reference_start = a.reference_start
                b.cigartuples = plain_cigar
                b.query_sequence = a.query_sequence
                ia, ib = ai_mod.AlignmentInfo(a), ai_mod.AlignmentInfo(b)
                fa, fb = pf.PolyAFinder(16, 0.75), pf.PolyAFinder(16, 0.75)
                ia.add_polya_info(fa, pv.PolyAFixer(SimpleNamespace(max_fake_terminal_exon_len=max_fake)))
                ib.add_polya_info(fb, pv.PolyAFixer(SimpleNamespace(max_fake_terminal_exon_len=max_fake)))
                va = (ia.read_exons, ia.read_blocks, [getattr(ia.polya_info, nm_) for nm_ in POS_NAMES])
                vb = (ib.read_exons, ib.read_blocks, [getattr(ib.polya_info, nm_) for nm_ in POS_NAMES])
                out["hard_clip_pairs"] = out.get("hard_clip_pairs", 0) + 1
                if va != vb:
                    out["viol"].append(("hard-clip-changes-result", cigar_str(cigar), a.reference_start,
                                        "with hard clips: exons %s tails %s; without: exons %s tails %s" % (va[0], va[2], vb[0], vb[2]), ""))
            # padding invariance: 80 soft-clipped C/G bases appended at an end that carries neither a tail nor a clip change nothing
            # (the tail search windows of the OTHER end must not depend on the length of the read)
            for side in ("right", "left"):
                has_clip = plain_cigar[-1][0] == 4 if side == "right" else plain_cigar[0][0] == 4
                end_kind = pieces[-1][0] if side == "right" else pieces[0][0]
                if has_clip or end_kind != "R" or hard_left or hard_right:
                    continue
                pad = "CG" * 40
                c = pysam.AlignedSegment(hdr)
                c.query_name = a.query_name
                c.reference_id = 0
                c.reference_start = a.reference_start
                c.cigartuples = (plain_cigar + [(4, 80)]) if side == "right" else ([(4, 80)] + plain_cigar)
                c.query_sequence = (a.query_sequence + pad) if side == "right" else (pad + a.query_sequence)
                i1, i2 = ai_mod.AlignmentInfo(a), ai_mod.AlignmentInfo(c)
                i1.add_polya_info(pf.PolyAFinder(16, 0.75), pv.PolyAFixer(SimpleNamespace(max_fake_terminal_exon_len=max_fake)))
                i2.add_polya_info(pf.PolyAFinder(16, 0.75), pv.PolyAFixer(SimpleNamespace(max_fake_terminal_exon_len=max_fake)))
                v1 = (i1.read_exons, [getattr(i1.polya_info, nm_) for nm_ in POS_NAMES])
                v2 = (i2.read_exons, [getattr(i2.polya_info, nm_) for nm_ in POS_NAMES])
                out["padding_pairs"] = out.get("padding_pairs", 0) + 1
                # the window of the padded end itself reaches 1-3 bases into the clip, so a chance A/T-rich random end may
                # legitimately be judged differently there: only the positions of the OTHER end are compared in that case
                same = (0, 1) if side == "right" else (2, 3)
                if [v1[1][k] for k in same] != [v2[1][k] for k in same]:
                    out["padding_same_side_differs"] = out.get("padding_same_side_differs", 0) + 1
                    other = (2, 3) if side == "right" else (0, 1)
                    v1 = ([], [v1[1][k] for k in other])
                    v2 = ([], [v2[1][k] for k in other])
                if v1 != v2:
                    out["viol"].append(("soft-clip-padding-changes-result:" + side, cigar_str(plain_cigar), a.reference_start,
                                        "as is: exons %s tails %s; with 80 padded bases at the %s end: exons %s tails %s" % (v1[0], v1[1], side, v2[0], v2[1]), ""))
            # ONE finder for all records of a worker, as in the pipeline (one finder per chromosome), and every record under the SAME read name
            # (primary, secondary and supplementary records of one read follow each other): what it finds for a record depends on that record only
            if it % 2 == 0:
                b2 = pysam.AlignedSegment(hdr)
                b2.query_name = "one_read_name"
                b2.reference_id = 0
                b2.reference_start = a.reference_start
                b2.cigartuples = a.cigartuples
                b2.query_sequence = a.query_sequence
                p_shared = shared_finder.detect_polya(b2)
                p_fresh = pf.PolyAFinder(16, 0.75).detect_polya(a)
                out["shared_finder_records"] = out.get("shared_finder_records", 0) + 1
                vs, vf = [getattr(p_shared, nm_) for nm_ in POS_NAMES], [getattr(p_fresh, nm_) for nm_ in POS_NAMES]
                if vs != vf:
                    out["viol"].append(("tail-positions-depend-on-the-record-processed-before", cigar_str(cigar), a.reference_start,
                                        "fresh finder %s" % vf, "finder that processed another record of the same read name before: %s" % vs))
            info = ai_mod.AlignmentInfo(a)
            ex0, rb0, cb0 = list(info.read_exons), list(info.read_blocks), list(info.cigar_blocks)
            inject = rng.random() < 0.35
            if inject:
                class InjFinder:
                    def detect_polya(self_inner, aln):
                        pi_ = finder.detect_polya(aln)
                        # positions limited to what the finder can return for SOME sequence: around the aligned
                        # ends, and jointly feasible (a T-rich head cannot extend past the start of an A-rich
                        # tail: internal polyT position < internal polyA position)
                        lo, hi = ex0[0][0], ex0[-1][1]
                        if rng.random() < 0.6:
                            pi_.internal_polya_pos = rng.randint(max(lo + 1, hi - 70), hi + 2)
                        if rng.random() < 0.3:
                            pi_.external_polya_pos = rng.randint(hi - 2, hi + 33)
                        if rng.random() < 0.6:
                            pi_.internal_polyt_pos = rng.randint(max(1, lo - 2), min(hi - 1, lo + 70))
                        if rng.random() < 0.3:
                            pi_.external_polyt_pos = rng.randint(max(1, lo - 33), lo + 2)
                        if pi_.internal_polya_pos != -1 and pi_.internal_polyt_pos != -1 and \
                                pi_.internal_polyt_pos >= pi_.internal_polya_pos:
                            if rng.random() < 0.5:
                                pi_.internal_polyt_pos = -1
                            else:
                                pi_.internal_polya_pos = -1
                        self_inner.last = {nm_: getattr(pi_, nm_) for nm_ in POS_NAMES}
                        return pi_
                use_finder = InjFinder()
            else:
                use_finder = finder
            # record the raw tail positions first
            raw = finder.detect_polya(a) if not inject else None
            info.add_polya_info(use_finder, fixer)
            before = use_finder.last if inject else {nm_: getattr(raw, nm_) for nm_ in POS_NAMES}
            ex1 = info.read_exons
            key = None
            # post-conditions
            if not ex1:
                out["viol"].append(("trim-empty-exon-list", cigar_str(cigar), a.reference_start, str(ex0), ""))
                continue
            if any(ex1[i][1] >= ex1[i + 1][0] for i in range(len(ex1) - 1)) or any(s > e for s, e in ex1):
                out["viol"].append(("trim-unordered-exons", cigar_str(cigar), a.reference_start, str(ex0), str(ex1)))
            # must be a contiguous slice of the original
            found = None
            for i in range(len(ex0) - len(ex1) + 1):
                if ex0[i:i + len(ex1)] == ex1:
                    found = i
                    break
            if found is None:
                out["viol"].append(("trim-not-a-slice", cigar_str(cigar), a.reference_start, str(ex0), str(ex1)))
                continue
            nl, nr = found, len(ex0) - len(ex1) - found
            if info.read_blocks != rb0[found:found + len(ex1)] or info.cigar_blocks != cb0[found:found + len(ex1)]:
                out["viol"].append(("trim-blocks-out-of-step", cigar_str(cigar), a.reference_start, str(ex0), str(ex1)))
            if (info.read_start, info.read_end) != (ex1[0][0], ex1[-1][1]):
                out["viol"].append(("trim-span-not-updated", cigar_str(cigar), a.reference_start, str(ex0), str(ex1)))
            if info.exons_changed != (nl + nr > 0):
                out["viol"].append(("trim-flag-wrong", cigar_str(cigar), a.reference_start, str(ex0), str(ex1)))
            pi_ = info.polya_info
            # exons lying ENTIRELY inside a tail (at or beyond the internal polyA position / at or before the internal polyT position that was
            # recorded before trimming) are all removed, however many there are - unless every exon of the read is such an exon
            tp, ap = before["internal_polyt_pos"], before["internal_polya_pos"]
            # (judged when only ONE kind of tail was recorded and some exon lies entirely outside it: otherwise the "all exons look like tails"
            # guard, which keeps one exon per side, may legitimately apply)
            in_t = [e for e in ex0 if tp != -1 and ap == -1 and e[1] <= tp] if any(e[0] >= tp for e in ex0) else []
            in_a = [e for e in ex0 if ap != -1 and tp == -1 and e[0] >= ap] if any(e[1] <= ap for e in ex0) else []
            if len(ex0) > 1 and len(in_t) + len(in_a) < len(ex0):
                out["tail_only_exon_cases"] = out.get("tail_only_exon_cases", 0) + (1 if (in_t or in_a) else 0)
                left = [e for e in in_t + in_a if e in ex1]
                if left:
                    out["viol"].append(("trim-exon-inside-the-tail-retained", cigar_str(cigar), a.reference_start,
                                        "exons %s lie entirely inside a tail (polyT position %d, polyA position %d) but are retained: %s -> %s" %
                                        (left, tp, ap, ex0, ex1), ""))
            # a side on which no exon was removed keeps its recorded positions
            for side_removed, names in ((nr, ("internal_polya_pos", "external_polya_pos")), (nl, ("internal_polyt_pos", "external_polyt_pos"))):
                if side_removed == 0:
                    for nm in names:
                        if getattr(pi_, nm) != before[nm]:
                            out["viol"].append(("trim-position-moved-without-removal", cigar_str(cigar), a.reference_start,
                                                "%s %d -> %d, exons %s kept %s" % (nm, before[nm], getattr(pi_, nm), ex0, ex1), ""))
            # tail positions: when exons were removed on the A side, a position that was recorded must end up
            # at  retained_end + (aligned bases of the removed exons left of the position)
            if nr > 0:
                out["trimmed"] += 1
                removed = ex0[len(ex0) - nr:]
                ret_end = ex1[-1][1]
                tot = sum(e - s + 1 for s, e in removed)
                for nm in ("internal_polya_pos", "external_polya_pos"):
                    v = getattr(pi_, nm)
                    if v == -1:
                        continue
                    if not (ret_end <= v <= ret_end + tot + 40):
                        out["viol"].append(("trim-tail-not-on-retained-exon", cigar_str(cigar), a.reference_start,
                                            "%s=%d retained_end=%d removed=%s" % (nm, v, ret_end, removed), ""))
            if nl > 0:
                out["trimmed"] += 1
                removed = ex0[:nl]
                ret_start = ex1[0][0]
                tot = sum(e - s + 1 for s, e in removed)
                for nm in ("internal_polyt_pos", "external_polyt_pos"):
                    v = getattr(pi_, nm)
                    if v == -1:
                        continue
                    if not (ret_start - tot - 40 <= v <= ret_start):
                        out["viol"].append(("trim-head-not-on-retained-exon", cigar_str(cigar), a.reference_start,
                                            "%s=%d retained_start=%d removed=%s" % (nm, v, ret_start, removed), ""))
            # exact projection check for finder-produced positions
            if raw is not None and nr > 0:
                removed = ex0[len(ex0) - nr:]
                for nm in ("internal_polya_pos", "external_polya_pos"):
                    v0 = getattr(raw, nm)
                    if v0 == -1:
                        continue
                    off = 0
                    for s, e in removed:
                        if v0 > e:
                            off += e - s + 1
                        elif v0 >= s:
                            off += v0 - s
                    exp = ex1[-1][1] + off
                    if getattr(pi_, nm) != exp:
                        out["proj_diff"] = out.get("proj_diff", 0) + 1
            if raw is not None and nl > 0:
                removed = ex0[:nl]
                for nm in ("internal_polyt_pos", "external_polyt_pos"):
                    v0 = getattr(raw, nm)
                    if v0 == -1:
                        continue
                    off = 0
                    for s, e in removed:
                        if v0 < s:
                            off += e - s + 1
                        elif v0 <= e:
                            off += e - v0
                    exp = ex1[0][0] - off
                    if getattr(pi_, nm) != exp:
                        out["proj_diff"] = out.get("proj_diff", 0) + 1
            key = "A%d/T%d%s%s" % (nr, nl, "/inj" if inject else "", "/all-tail" if degenerate else "")
            out["trim_classes"][key] = out["trim_classes"].get(key, 0) + 1
            if (nl or nr) and len(out["samples"]) < 2:
                out["samples"].append({"cigar": cigar_str(cigar), "exons": ex0, "after": ex1, "removed_right": nr, "removed_left": nl})
        except AssertionError as e:
            out["viol"].append(("trim-assertion", cigar_str(cigar), a.reference_start, repr(e), ""))
        except Exception as e:
            out["viol"].append(("trim-exception", cigar_str(cigar), a.reference_start, repr(e), ""))
    return out


LEVEL = "exploration"
POS_NAMES = ("internal_polya_pos", "external_polya_pos", "internal_polyt_pos", "external_polyt_pos")


def run(chk, scratch):
    thorough = chk.tier == "thorough"
    max_ops = 7 if thorough else 5
    chk.rule = ("exhaustive over CIGAR cores of <=%d operations over {M,=,X,I,D,N} (no two equal adjacent ops, lengths in {1,3}, "
                "N-delimited segments without aligned bases included) x clip variants {none,S,HS,H}x{none,S,SH,H} (all 16 up to 4 ops, 4 above), "
                "plus random long CIGARs, plus tail-trimming cases on A/T-run terminal exons (real finder and injected positions; hard clips outside soft clips or on their own, each record also compared with its twin without hard clips); "
                "non-trivial = distinct operator-pattern classes (indel next to N, leading/trailing indel, S, H, several N) / trimming classes (exons removed on A side, T side)") % max_ops
    cores = list(enum_cores(max_ops))
    small = [c for c in cores if len(c) <= 4]
    big = [c for c in cores if len(c) > 4]
    jobs = []
    nchunk = 48
    for i in range(nchunk):
        part = small[i::nchunk]
        if part:
            jobs.append(("enum", (part, None, "all")))
    nchunk2 = 96 if thorough else 32
    for i in range(nchunk2):
        part = big[i::nchunk2]
        if part:
            jobs.append(("enum", (part, None, "few")))
    nrand = 200000 if thorough else 20000
    for i in range(16):
        jobs.append(("random", (chk.seed * 1000 + i, nrand // 16)))
    ntrim = 400000 if thorough else 40000
    for i in range(16):
        jobs.append(("trim", (chk.seed * 7919 + i, ntrim // 16)))
    nproj = 160000 if thorough else 16000
    for i in range(16):
        jobs.append(("projection", (chk.seed * 104729 + i, nproj // 16)))
    total_evals = 0
    classes = {}
    trim_classes = {}
    proj_classes = {}
    ai = 0
    trimmed = 0
    with ProcessPoolExecutor(max_workers=16) as ex:
        for job, res in zip(jobs, ex.map(_worker, jobs)):
            chk.note(n=res["n"])
            total_evals += res.get("evals", 0)
            ai += res.get("ai", 0)
            trimmed += res.get("trimmed", 0)
            chk.count("hard_clip_pairs_compared", res.get("hard_clip_pairs", 0))
            chk.count("padding_pairs_compared", res.get("padding_pairs", 0))
            chk.count("alignments_through_the_second_cigar_walker", res.get("concat_cases", 0))
            chk.count("records_of_one_read_name_through_one_finder", res.get("shared_finder_records", 0))
            chk.count("padding_pairs_same_side_differs", res.get("padding_same_side_differs", 0))
            chk.count("reads_with_exons_entirely_inside_a_tail", res.get("tail_only_exon_cases", 0))
            for k, v in res.get("classes", {}).items():
                classes[k] = classes.get(k, 0) + v
            for k, v in res.get("trim_classes", {}).items():
                trim_classes[k] = trim_classes.get(k, 0) + v
            for k, v in res.get("proj_classes", {}).items():
                proj_classes[k] = proj_classes.get(k, 0) + v
            chk.count("tail_positions_compared_with_aligned_pairs", res.get("proj_judged", 0))
            for s in res.get("samples", []):
                chk.sample(s, limit=8)
            for v in res["viol"]:
                chk.violation(v[0], "%s cigar=%s ref_start0=%s expected=%s got=%s" % (v[0], v[1], v[2], v[3], v[4]),
                              {"cigar": v[1], "ref_start0": v[2], "expected": v[3], "got": v[4]})
    for k in classes:
        if k:
            chk.nontrivial.add("cigar:" + k)
    for k in trim_classes:
        if not k.startswith("A0/T0"):
            chk.nontrivial.add("trim:" + k)
    # output level: the same alignments written (a) with M operations, (b) with =/X operations, (c) with hard clips added at both ends
    # must give the same exons column, corrected alignments and tables
    from vlib import world2, pipeline, runner
    import copy
    d = os.path.join(scratch, "notation")
    w = world2.rich_world(chk.seed * 3 + 1, n_chroms=2, genes_per_chrom=3, reads_per_t=4, hidden_cov=4, eqx_every=0,
                          zoo=("twins", "ambiguous_only", "alt_terminal"))
    variants = {"M": w}
    we = copy.copy(w)
    we.reads = [copy.copy(r) for r in w.reads]
    for r in we.reads:
        if not (r.flag & 4):
            r.cigar = list(r.cigar)
            we.to_eqx(r)
    variants["eqx"] = we
    wh = copy.copy(w)
    wh.reads = [copy.copy(r) for r in w.reads]
    for i, r in enumerate(wh.reads):
        if not (r.flag & 4):
            r.cigar = ([(5, 11)] if i % 3 != 1 else []) + list(r.cigar) + ([(5, 23)] if i % 3 != 2 else [])
    variants["hard-clipped"] = wh

    def run_variant(item):
        name, wv = item
        dv = os.path.join(d, name)
        pipeline.write_world(wv, dv)
        return name, dv, pipeline.run(dv, os.path.join(dv, "out"), threads=2, extra=["--count_exons"])
    res_v = {name: (dv, r) for name, dv, r in runner.parallel(run_variant, list(variants.items()), workers=3)}
    if all(r["rc"] == 0 for dv, r in res_v.values()):
        base = os.path.join(res_v["M"][0], "out", pipeline.PREFIX)
        for name in ("eqx", "hard-clipped"):
            chk.note()
            chk.count("notation_variants_compared")
            for rel, why in runner.compare_trees(base, os.path.join(res_v[name][0], "out", pipeline.PREFIX))[:5]:
                chk.violation("alignment-notation-changes-output:%s:%s" % (name, rel.split(".", 1)[1] if "." in rel else rel),
                              "pipeline run: %s %s between the M notation and the %s notation of the same alignments" % (rel, why, name),
                              {"variant": name, "file": rel})
    else:
        for name, (dv, r) in res_v.items():
            if r["rc"] is None:
                chk.inconclusive.append("watchdog expired in the notation variant " + name)
            elif r["rc"] != 0:
                chk.violation("alignment-notation:run-failed:" + name, "pipeline run on the %s notation failed: %s" % (name, pipeline.fail_text(r)), {"variant": name})
    chk.extra.update({"contract_evaluations": total_evals, "alignmentinfo_objects": ai, "cigar_pattern_classes": classes,
                      "trim_classes": trim_classes, "reads_with_trimmed_exons": trimmed, "tail_projection_classes": proj_classes,
                      "exhaustive": True, "max_core_ops": max_ops, "enumerated_cores": len(cores)})
    chk.inconclusive_if(not any("aligned-part" in k and not k.endswith("plain") for k in proj_classes), "no tail boundary behind an insertion / deletion / intron was judged")
    chk.assumptions = ["oracle = independent CIGAR walk in vlib/checks/c16.py", "pysam builds the records",
                       "tail positions: the read index returned by the finder's own window search is projected with pysam's get_aligned_pairs (judged when that read base is an aligned base)",
                       "N-delimited segments without an aligned base yield no exon (deletion-only segments may be reported or dropped); all other exons must be exact"]
    chk.inconclusive_if(total_evals == 0, "contract on get_read_blocks never evaluated")
    chk.inconclusive_if(trimmed == 0, "no read had terminal exons trimmed")
    chk.inconclusive_if(chk.extra.get("notation_variants_compared", 0) == 0 and not chk.violations, "no pipeline-level notation variant compared")
    chk.inconclusive_if(chk.extra.get("hard_clip_pairs_compared", 0) == 0, "no hard-clipped record compared with its unclipped twin")
    chk.min_nontrivial = 8
