"""C06 — outputs do not depend on threads, hash seed, memory mode, --keep_tmp or repetition.

Monitor: byte comparison of whole output trees against a reference run (-t 1, PYTHONHASHSEED=0); the launcher's
schedule monitor injects seeded delays around every chromosome task and logs (stage, chromosome, pid, order) so
that the evidence counts the distinct chromosome->worker partitions and completion orders actually produced.
"""
import os
import shutil

from vlib import runner, pipeline, world2

LEVEL = "exploration"


def schedule_signature(evs):
    """partition of chromosomes over worker pids and completion order, per stage"""
    sig = []
    for stage in ("collect", "construct"):
        starts = [(e["t"], e["chr"], e["pid"]) for e in evs if e["k"] == "task_start" and e["stage"] == stage]
        ends = [(e["t"], e["chr"]) for e in evs if e["k"] == "task_end" and e["stage"] == stage]
        pids = {}
        for _, c, p in sorted(starts):
            pids.setdefault(p, []).append(c)
        part = tuple(sorted(tuple(v) for v in pids.values()))
        order = tuple(c for _, c in sorted(ends))
        sig.append((stage, part, order))
    return tuple(sig)


def run(chk, scratch):
    thorough = chk.tier == "thorough"
    n_worlds = 4 if thorough else 1
    chk.rule = ("one rich world per seed (6 chromosomes of distinct lengths, hidden isoforms on every chromosome, shared-exon and antisense "
                "genes, paralogs with multi-mapped reads, read-group tags, --count_exons) run with varied --threads / PYTHONHASHSEED / "
                "--high_memory / --keep_tmp / repetition / injected task delays and compared byte-wise (command-line header lines ignored) "
                "with the -t 1, hash-seed-0 reference; the same reads once more as one experiment of three BAM files grouped by file name (regions where only one or two of the files have reads); non-trivial = distinct (threads, hash seed, mode flags, schedule signature) of runs that differ "
                "from the reference run in at least one knob")
    base_extra = ["--count_exons", "--read_group", "tag:RG", "--check_canonical"]
    configs = []
    if thorough:
        for t in (1, 2, 3, 5, 16):
            for hs in (0, 1, 2, 3, 11, 12345):
                configs.append({"threads": t, "hs": hs, "flags": [], "delay": 0.0})
        for t in (2, 5, 16):
            for ds in range(4):
                configs.append({"threads": t, "hs": ds, "flags": [], "delay": 0.4, "dseed": ds})
        for t in (1, 4):
            for hs in (0, 5):
                configs.append({"threads": t, "hs": hs, "flags": ["--high_memory"], "delay": 0.0})
                configs.append({"threads": t, "hs": hs, "flags": ["--keep_tmp"], "delay": 0.0})
        configs.append({"threads": 1, "hs": 0, "flags": [], "delay": 0.0, "again": True})
        configs.append({"threads": 3, "hs": 2, "flags": ["--high_memory"], "delay": 0.0, "again": True})
    else:
        configs = [{"threads": 1, "hs": 0, "flags": [], "delay": 0.0},         # repetition
                   {"threads": 2, "hs": 0, "flags": [], "delay": 0.0, "again": True},         # repetition into the folder of the first run
                   {"threads": 1, "hs": 1, "flags": [], "delay": 0.0},
                   {"threads": 1, "hs": 7, "flags": ["--high_memory"], "delay": 0.0},
                   {"threads": 2, "hs": 2, "flags": [], "delay": 0.3, "dseed": 1},
                   {"threads": 3, "hs": 3, "flags": [], "delay": 0.3, "dseed": 2},
                   {"threads": 5, "hs": 0, "flags": ["--keep_tmp"], "delay": 0.3, "dseed": 3},
                   {"threads": 16, "hs": 4, "flags": [], "delay": 0.3, "dseed": 4},
                   {"threads": 16, "hs": 0, "flags": ["--high_memory"], "delay": 0.0},
                   {"threads": 4, "hs": 12345, "flags": [], "delay": 0.3, "dseed": 5},
                   {"threads": 2, "hs": 99, "flags": ["--high_memory", "--keep_tmp"], "delay": 0.0},
                   {"threads": 6, "hs": 5, "flags": [], "delay": 0.3, "dseed": 6}]
    schedules = set()
    for wi in range(n_worlds):
        wseed = chk.seed * 10 + wi
        d = os.path.join(scratch, "w%d" % wi)
        w = world2.rich_world(wseed, zoo=world2.ZOO_ALL)
        # the secondary records of every second multi-mapped read carry no RG tag (legal SAM; some aligners keep auxiliary tags on the primary
        # record only): such a record is grouped as untagged wherever and whenever it is processed
        fam_ = {}
        for r_ in w.reads:
            if r_.flag & 256:
                k_ = fam_.setdefault(r_.name, len(fam_))
                if k_ % 2 == 0:
                    r_.tags = [t_ for t_ in r_.tags if t_[0] != "RG"]
        # ... and reads whose RETAINED alignment is such an untagged secondary record: the primary record (tagged) lies unspliced in a gene-free
        # stretch of the longest sequence (handled first by a single process), the secondary one is a full copy of an annotated transcript elsewhere
        longest_ = max(w.chrom_order, key=w.chrom_len)
        free_ = world2._free_pos(w, longest_, 1500)
        others_ = [t_ for g_ in w.genes if g_.chrom != longest_ and not g_.id.startswith(("P", "X", "Z")) for t_ in g_.transcripts[:1] if len(t_.exons) >= 3][:4]
        if free_ + 1500 < w.chrom_len(longest_):
            for k_, t_ in enumerate(others_):
                for j_ in range(2):
                    nm_ = "mmtag%02d_%d" % (k_, j_)
                    w.make_read(longest_, [(free_ + 40 * k_ + 7 * j_, free_ + 700)], name=nm_, flag=0, mapq=60, tags=[("RG", "g%d" % (k_ % 3))],
                                truth={"multimap": True, "class": "tagged-primary-unspliced"})
                    w.make_read(t_.chrom, list(t_.exons), name=nm_, flag=256 | (16 if t_.strand == "-" else 0), mapq=60, tags=[],
                                truth={"multimap": True, "class": "untagged-secondary-wins"})
        chk.count("secondary_records_without_the_group_tag", sum(1 for r_ in w.reads if r_.flag & 256 and not any(t_[0] == "RG" for t_ in r_.tags)))
        if (wseed // 10 + wseed % 10) % 2 == 1:
            # sequence names with dots (RefSeq / scaffold style)
            world2.rename_chroms(w, {c: ("NC_00007%d.6", "GL45621%d.1", "KI27072%d.1")[i % 3] % i for i, c in enumerate(w.chrom_order)})
        # part of the reference carries IsoQuant-style ids (an extended annotation of an earlier run fed back as reference):
        # the numbers reserved on one chromosome must not influence the ids given out on another one
        id_map = {}
        n = 0
        for g in w.genes:
            if g.chrom in (w.chrom_order[0], w.chrom_order[2]) and g.transcripts:
                n += 1
                id_map[g.id] = "novel_gene_%s_%d" % (g.chrom, n)
                for t in g.transcripts:
                    n += 1
                    id_map[t.id] = "transcript%d.%s.nnic" % (n, g.chrom)
        pipeline.write_world(w, d, id_map=id_map)
        ref_out = os.path.join(d, "ref")
        r = pipeline.run(d, ref_out, threads=1, extra=base_extra, home=os.path.join(d, "home_ref"))
        if r["rc"] is None:
            raise runner.Inconclusive("watchdog expired on the reference run")
        if r["rc"] != 0:
            chk.violation("reference-run-failed", "reference run failed: " + pipeline.fail_text(r), {"world_seed": wseed})
            continue

        def one(ic):
            i, c = ic
            out = os.path.join(d, "run%d" % i)
            ev = os.path.join(d, "ev%d" % i)
            if c.get("again"):
                # repetition INTO THE SAME output folder (the command line is simply run again, --force): the second run is judged
                pipeline.run(d, out, threads=c["threads"], extra=base_extra + c["flags"], hashseed=str(c["hs"]), home=os.path.join(d, "home%d" % i))
            rr = pipeline.run(d, out, threads=c["threads"], extra=base_extra + c["flags"], hashseed=str(c["hs"]),
                              home=os.path.join(d, "home%d" % i), mon=["schedule"],
                              cfg={"sched_seed": c.get("dseed", 0), "sched_max_delay": c["delay"]}, events=ev)
            return i, c, out, ev, rr
        for i, c, out, ev, rr in runner.parallel(one, list(enumerate(configs)), workers=6 if not thorough else 4):
            chk.note()
            desc = "threads=%d hashseed=%s flags=%s delay=%s" % (c["threads"], c["hs"], " ".join(c["flags"]) or "-", c["delay"])
            if rr["rc"] is None:
                chk.inconclusive.append("watchdog expired: " + desc)
                continue
            if rr["rc"] != 0:
                chk.violation("run-failed:" + ("high_memory" if "--high_memory" in c["flags"] else "default"),
                              "run failed (%s): %s" % (desc, pipeline.fail_text(rr)), {"world_seed": wseed, "config": c})
                continue
            evs = runner.load_events(ev)
            sig = schedule_signature(evs)
            schedules.add(sig)
            excl = ("isoquant.log", "isoquant.log.old", ".params")
            diffs = runner.compare_trees(os.path.join(ref_out, pipeline.PREFIX), os.path.join(out, pipeline.PREFIX), exclude=excl)
            diffs = [x for x in diffs if not x[0].startswith("aux")]
            knob = []
            if c["threads"] != 1:
                knob.append("threads")
            if c["hs"] != 0:
                knob.append("hashseed")
            knob += [f.strip("-") for f in c["flags"]]
            if c.get("again"):
                knob.append("same-folder-again")
            for rel, why in diffs:
                suffix = rel.split(".", 1)[1] if "." in rel else rel
                chk.violation("output-differs:%s:%s" % ("+".join(knob) or "repetition", suffix),
                              "%s: %s differs from the reference run (%s)" % (desc, rel, why),
                              {"world_seed": wseed, "config": c, "file": rel})
            chk.nontrivial.add((c["threads"], c["hs"], tuple(c["flags"]), hash(sig)))
            chk.sample({"config": desc, "schedule": [list(map(str, s)) for s in sig][:2], "files_compared":
                        len(runner.tree_files(os.path.join(out, pipeline.PREFIX))), "differences": len(diffs)}, limit=4)
            chk.count("files_compared", len([f for f in runner.tree_files(os.path.join(out, pipeline.PREFIX)) if not f.startswith("aux")]))
            shutil.rmtree(out, ignore_errors=True)
        # the same reads as ONE experiment of three BAM files, grouped by file name: whole stretches of every chromosome have reads of
        # one or two of the files only (a file without reads in a region must not shift the numbering of the others)
        file_of = {}
        for r_ in w.reads:
            if r_.name not in file_of and not r_.flag & 4:
                file_of[r_.name] = (r_.pos0 // 9000 + (1 if (r_.pos0 // 9000) % 5 == 0 else 0)) % 3 if (r_.pos0 // 9000) % 4 else 2
        bams = [os.path.join(d, "part%d.bam" % k) for k in range(3)]
        for k in range(3):
            w.write_bam(bams[k], reads=[r_ for r_ in w.reads if file_of.get(r_.name, 0) == k])
        fextra = ["--count_exons", "--read_group", "file_name", "--check_canonical"]
        fref_out = os.path.join(d, "fref")
        r = pipeline.run(d, fref_out, threads=1, bam=bams, extra=fextra, home=os.path.join(d, "home_fref"))
        if r["rc"] is None:
            raise runner.Inconclusive("watchdog expired on the reference run (three files)")
        if r["rc"] != 0:
            chk.violation("reference-run-failed", "reference run (three BAM files, grouped by file name) failed: " + pipeline.fail_text(r), {"world_seed": wseed})
            continue
        fconfigs = [{"threads": 1, "hs": 0, "flags": ["--high_memory"]}, {"threads": 3, "hs": 2, "flags": []}, {"threads": 2, "hs": 5, "flags": ["--high_memory", "--keep_tmp"]}]
        if thorough:
            fconfigs += [{"threads": 16, "hs": 1, "flags": ["--high_memory"]}, {"threads": 5, "hs": 3, "flags": ["--keep_tmp"]}]

        def fone(ic):
            i, c = ic
            out = os.path.join(d, "frun%d" % i)
            rr = pipeline.run(d, out, threads=c["threads"], bam=bams, extra=fextra + c["flags"], hashseed=str(c["hs"]), home=os.path.join(d, "fhome%d" % i))
            return i, c, out, rr
        for i, c, out, rr in runner.parallel(fone, list(enumerate(fconfigs)), workers=5):
            chk.note()
            desc = "three BAM files grouped by file name, threads=%d hashseed=%s flags=%s" % (c["threads"], c["hs"], " ".join(c["flags"]) or "-")
            if rr["rc"] is None:
                chk.inconclusive.append("watchdog expired: " + desc)
                continue
            if rr["rc"] != 0:
                chk.violation("run-failed:" + ("high_memory" if "--high_memory" in c["flags"] else "default"),
                              "run failed (%s): %s" % (desc, pipeline.fail_text(rr)), {"world_seed": wseed, "config": c})
                continue
            diffs = runner.compare_trees(os.path.join(fref_out, pipeline.PREFIX), os.path.join(out, pipeline.PREFIX), exclude=("isoquant.log", "isoquant.log.old", ".params"))
            diffs = [x for x in diffs if not x[0].startswith("aux")]
            knob = (["threads"] if c["threads"] != 1 else []) + (["hashseed"] if c["hs"] else []) + [f.strip("-") for f in c["flags"]]
            for rel, why in diffs:
                suffix = rel.split(".", 1)[1] if "." in rel else rel
                chk.violation("output-differs:several-files:%s:%s" % ("+".join(knob), suffix), "%s: %s differs from the reference run (%s)" % (desc, rel, why),
                              {"world_seed": wseed, "config": c, "file": rel, "bam_files": 3})
            chk.nontrivial.add((c["threads"], c["hs"], tuple(c["flags"]), "three-files"))
            chk.count("runs_over_three_bam_files_compared")
            chk.count("files_compared", len([f for f in runner.tree_files(os.path.join(out, pipeline.PREFIX)) if not f.startswith("aux")]))
            shutil.rmtree(out, ignore_errors=True)
        if chk.violations:
            chk.witness_files = [os.path.join(d, f) for f in ("g.fa", "a.gtf", "r.bam", "r.bam.bai")]
    chk.extra["distinct_schedules"] = len(schedules)
    chk.assumptions = ["like is compared with like: identical option strings apart from the varied knob",
                       "gz outputs compared decompressed; '# Command line' header lines ignored; aux/ (kept only with --keep_tmp) not compared"]
    chk.inconclusive_if(len(schedules) < 2, "fewer than 2 distinct schedules observed")
    chk.min_nontrivial = 6
