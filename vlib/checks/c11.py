"""C11 — results are equivariant under coordinate translation and strand reflection.

Monitor / oracle: metamorphic comparison of the outputs of a transformed input with the transformed outputs of the original
input.  Shift by k: every coordinate field +k, everything else byte-identical.  Reflection (genome reverse-complemented,
annotation mirrored with strands flipped, alignments mirrored): per read the same assignment type and isoform/gene sets, strand
flipped, the multiset of event names equal after the left/right swap, mirrored exons; equal count tables; for noise-free
inputs mirrored transcript models and model counts.
"""
import os
import re
import shutil
from collections import Counter, defaultdict

from vlib import runner, pipeline, world, world2, parse, transform
from vlib.checks import c14

LEVEL = "exploration"
FLIP = {"+": "-", "-": "+", ".": "."}


def shift_line(fname, line, k):
    """transform one output line of the ORIGINAL run into what the shifted run must print"""
    if line.startswith("#") or not line.strip():
        return line
    v = line.split("\t")
    if fname.endswith("read_assignments.tsv"):
        v[6] = ",".join(transform.shift_event(e, k) for e in transform.split_events(v[6])) if v[6] not in (".", "") else v[6]
        if v[7] not in (".", ""):
            v[7] = ",".join("%d-%d" % (a + k, b + k) for a, b in parse.parse_exons(v[7]))
        return "\t".join(v)
    if fname.endswith(".bed"):
        for i in (1, 2, 6, 7):
            v[i] = str(int(v[i]) + k)
        return "\t".join(v)
    if fname.endswith(".gtf"):
        v[3], v[4] = str(int(v[3]) + k), str(int(v[4]) + k)
        return "\t".join(v)
    if fname.endswith("exon_counts.tsv") or fname.endswith("intron_counts.tsv"):
        v[1], v[2] = str(int(v[1]) + k), str(int(v[2]) + k)
        return "\t".join(v)
    return line


def compare_shift(chk, out0, outk, k, desc, wit):
    a_dir, b_dir = os.path.join(out0, pipeline.PREFIX), os.path.join(outk, pipeline.PREFIX)
    fa, fb = runner.tree_files(a_dir), runner.tree_files(b_dir)
    for rel in sorted(set(fa) | set(fb)):
        if rel.startswith("aux"):
            continue
        if rel not in fa or rel not in fb:
            chk.violation("shift:file-set-differs", "%s: %s present in only one run" % (desc, rel), wit)
            continue
        la = runner.normalized(fa[rel]).decode().split("\n")
        lb = runner.normalized(fb[rel]).decode().split("\n")
        ta = [shift_line(rel, l, k) for l in la]
        chk.note()
        if ta != lb:
            first = next(((x, y) for x, y in zip(ta, lb) if x != y), ("", ""))
            chk.violation("shift:output-differs:%s" % (rel.split(".", 1)[1] if "." in rel else rel),
                          "%s: %s is not the original shifted by %d; expected line %r, got %r (%d vs %d lines)" %
                          (desc, rel, k, first[0][:160], first[1][:160], len(ta), len(lb)), wit)


def assignment_view(o, L=None):
    """read -> sorted list of per-isoform records (type, isoform, gene, strand, events multiset, exons, info)"""
    res = defaultdict(list)
    for a in o.assignments():
        ev = transform.split_events(a.events)
        ex = a.exons
        strand = a.strand
        if L is not None:
            Lc = L[a.chr]
            ev = [transform.reflect_event(e, Lc) for e in ev]
            ex = sorted((Lc + 1 - e, Lc + 1 - s) for s, e in ex)
            strand = FLIP[strand]
        info = {k: v for k, v in a.info.items() if k in ("gene_assignment", "PolyA", "Classification", "Canonical")}
        res[a.read_id].append((a.chr, a.atype, a.isoform, a.gene, strand, tuple(sorted(ev)), tuple(ex), tuple(sorted(info.items()))))
    return {k: sorted(v) for k, v in res.items()}


def model_view(gm, L=None, ref_ids=()):
    res = Counter()
    for tid, t in gm.transcripts.items():
        ex = sorted(t["exons"])
        strand = t["strand"]
        if L is not None:
            Lc = L[t["chr"]]
            ex = sorted((Lc + 1 - e, Lc + 1 - s) for s, e in ex)
            strand = FLIP[strand]
        label = tid if tid in ref_ids else ("novel" + (".nic" if tid.endswith(".nic") else ".nnic" if tid.endswith(".nnic") else ""))
        gene = t["gene"] if not str(t["gene"]).startswith("novel_gene") else "novel_gene"
        res[(t["chr"], strand, tuple(ex), label, gene)] += 1
    return res


def compare_reflection(chk, w, out0, outr, L, desc, wit, noise_free):
    o0, o1 = pipeline.Outputs(out0), pipeline.Outputs(outr)
    v0 = assignment_view(o0, L)
    v1 = assignment_view(o1)
    truth = {r.name: r.truth for r in w.reads}
    for rid in sorted(set(v0) | set(v1)):
        chk.note()
        a, b = v0.get(rid), v1.get(rid)
        cls = truth.get(rid, {}).get("class") or truth.get(rid, {}).get("mode") or "other"
        if a is None or b is None:
            chk.violation("reflection:read-reported-in-one-run-only", "%s: read %s (%s)" % (desc, rid, cls), wit)
            continue
        if a != b:
            ta = [(x[1], x[2]) for x in a]
            tb = [(x[1], x[2]) for x in b]
            if sorted(ta) != sorted(tb):
                kind = "type-or-isoform-set"
            elif [x[5] for x in a] != [x[5] for x in b]:
                kind = "events"
            elif [x[6] for x in a] != [x[6] for x in b]:
                kind = "exons"
            elif [x[4] for x in a] != [x[4] for x in b]:
                kind = "strand"
            else:
                kind = "additional-info"
            if kind == "events":
                # only the coordinate printed for polyA/polyT-site events differs?
                def strip(rec):
                    evs = []
                    coords = []
                    for e in rec[5]:
                        nm, p = transform.parse_event(e)
                        if nm.startswith(("correct_polya_site", "alternative_polya_site", "internal_polya")) and isinstance(p, int):
                            evs.append(nm)
                            coords.append((nm, p))
                        else:
                            evs.append(e)
                    return rec[:5] + (tuple(sorted(evs)),) + rec[6:], sorted(coords)
                sa = [strip(x) for x in a]
                sb = [strip(x) for x in b]
                if [x[0] for x in sa] == [x[0] for x in sb]:
                    diffs = [abs(ca[1] - cb[1]) for xa, xb in zip(sa, sb) for ca, cb in zip(xa[1], xb[1])]
                    if diffs and all(dv <= 2 for dv in diffs):
                        kind = "polya-site-coordinate-differs-by-at-most-2"
            ev_a = set(e.split(":")[0] for x in a for e in x[5])
            ev_b = set(e.split(":")[0] for x in b for e in x[5])
            chk.violation("reflection:read-assignment-differs:%s" % kind,
                          "%s: read %s (%s): mirrored original %s vs reflected run %s; events only in mirrored original %s, only in reflected run %s" %
                          (desc, rid, cls, [(x[1], x[2], x[4]) for x in a][:3], [(x[1], x[2], x[4]) for x in b][:3],
                           sorted(ev_a - ev_b)[:5], sorted(ev_b - ev_a)[:5]), wit)
        for x in a:
            for e in x[5]:
                nm = e.split(":")[0]
                if nm.endswith(("_left", "_right")):
                    chk.nontrivial.add((nm, x[4]))
    # BED
    b0 = defaultdict(list)
    for b in o0.bed():
        Lc = L[b.chr]
        b0[b.name].append((b.chr, tuple(sorted((Lc + 1 - e, Lc + 1 - s) for s, e in b.exons())), FLIP[b.strand]))
    b1 = defaultdict(list)
    for b in o1.bed():
        b1[b.name].append((b.chr, tuple(b.exons()), b.strand))
    for rid in set(b0) | set(b1):
        if sorted(b0.get(rid, [])) != sorted(b1.get(rid, [])):
            chk.violation("reflection:corrected-alignment-differs", "%s: read %s: mirrored original %s, reflected run %s" %
                          (desc, rid, sorted(b0.get(rid, []))[:1], sorted(b1.get(rid, []))[:1]), wit)
    # reference-based count tables: identical
    for fn in ("gene_counts.tsv", "transcript_counts.tsv", "gene_tpm.tsv", "transcript_tpm.tsv"):
        if runner.normalized(o0.path(fn)) != runner.normalized(o1.path(fn)):
            ca, cb = o0.counts(fn), o1.counts(fn)
            d = [(k, ca.get(k), cb.get(k)) for k in sorted(set(ca) | set(cb)) if ca.get(k) != cb.get(k)]
            chk.violation("reflection:count-table-differs:" + fn, "%s: %s differs, e.g. %s" % (desc, fn, d[:3]), wit)
    if noise_free:
        ref_ids = set(t.id for t in w.all_transcripts())
        m0 = model_view(o0.models(), L, ref_ids)
        m1 = model_view(o1.models(), None, ref_ids)
        only0 = list((m0 - m1).elements())
        only1 = list((m1 - m0).elements())
        # unspliced novel models end at the polyA / polyT position of their reads: the 1-2 bp asymmetry of those positions (known finding of
        # the read-level comparison) shows as a 3' end that differs by at most 2 bp between the mirror images
        tail_pairs = {}
        for x in list(only0):
            if len(x[2]) != 1 or not x[3].startswith("novel"):
                continue
            for y in only1:
                if y[:2] == x[:2] and len(y[2]) == 1 and y[3] == x[3] and y[4] == x[4]:
                    five0, three0 = (x[2][0][0], x[2][0][1]) if x[1] == "+" else (x[2][0][1], x[2][0][0])
                    five1, three1 = (y[2][0][0], y[2][0][1]) if y[1] == "+" else (y[2][0][1], y[2][0][0])
                    if five0 == five1 and 0 < abs(three0 - three1) <= 2:
                        only0.remove(x)
                        only1.remove(y)
                        tail_pairs[(x[0], x[1], x[2])] = (y[0], y[1], y[2])
                        chk.violation("reflection:transcript-models-differ:unspliced-novel-3prime-end-differs-by-at-most-2",
                                      "%s: unspliced novel model %s %s %s in the mirrored original, %s in the reflected run" % (desc, x[0], x[1], x[2], y[2]), wit)
                        break
        if only0 or only1:
            chk.violation("reflection:transcript-models-differ", "%s: models only in mirrored original: %s; only in reflected run: %s" %
                          (desc, [(x[0], x[1], x[2][:2], x[3]) for x in only0[:2]], [(x[0], x[1], x[2][:2], x[3]) for x in only1[:2]]), wit)
        else:
            # model counts by structure
            def counts_by_structure(o, Lx):
                gm = o.models()
                c = o.counts("transcript_model_counts.tsv")
                res = Counter()
                for tid, t in gm.transcripts.items():
                    ex = sorted(t["exons"])
                    strand = t["strand"]
                    if Lx is not None:
                        Lc = Lx[t["chr"]]
                        ex = sorted((Lc + 1 - e, Lc + 1 - s) for s, e in ex)
                        strand = FLIP[strand]
                    k = (t["chr"], strand, tuple(ex))
                    res[tail_pairs.get(k, k)] = c.get(tid, 0.0)
                return res
            c0, c1 = counts_by_structure(o0, L), counts_by_structure(o1, None)
            if c0 != c1:
                d = [(k[0], k[1], k[2][:2], c0.get(k), c1.get(k)) for k in set(c0) | set(c1) if c0.get(k) != c1.get(k)]
                chk.violation("reflection:model-counts-differ", "%s: %s" % (desc, d[:3]), wit)


def ends_at_tolerance_boundary(w, lo=46, hi=54):
    """Annotated isoforms of one gene with the same intron chain whose starts or ends lie about apa_delta (50) apart: whether a tailed read
    of one of them also matches the other then hinges on 1-2 bp, i.e. on the recorded polyA/polyT coordinate finding."""
    for g in w.genes:
        ts = g.transcripts
        for i in range(len(ts)):
            for j in range(i + 1, len(ts)):
                if ts[i].introns == ts[j].introns and (lo <= abs(ts[i].start - ts[j].start) <= hi or lo <= abs(ts[i].end - ts[j].end) <= hi):
                    return True
    return False


def make_world(seed, kind):
    # worlds in which the KNOWN 1-2 bp polyA/polyT coordinate asymmetry decides an assignment (alternative ends exactly one tolerance apart)
    # are replaced by the next world of the same kind: that manifestation is covered by the recorded finding, not re-reported
    for attempt in range(20):
        w, nf = _make_world(seed + 7919 * attempt, kind)
        if not ends_at_tolerance_boundary(w):
            break
    # reads whose alignments are EXACT ties (uninformative, equal coordinates on exact copies of a locus) are resolved by coordinate and
    # sequence order: outside the quantifier of C11 (as the twin loci are)
    w.reads = [r for r in w.reads if r.truth.get("class") != "mm-uninformative-same-coordinates"]
    return w, nf


def _make_world(seed, kind):
    if kind == "events":
        return c14.event_world(seed, twins=False), False      # exact positional ties are outside the quantifier of C11
    if kind == "noise-free":
        w = world2.rich_world(seed, n_chroms=3, genes_per_chrom=3, reads_per_t=0, hidden_cov=0, multimappers=False, unmapped=0, extra_len=260000)
        rng = w.rng
        # unannotated isoforms whose first (last) exon begins (ends) in the middle of an intron of the annotated isoform, on both strands:
        # the left-hand and the right-hand version are mirror images of each other
        from vlib.world import Gene, Transcript
        for ci, chrom in enumerate(w.chrom_order):
            p = max([g.end for g in w.genes if g.chrom == chrom] + [1000]) + 2500
            for k, (strand, side) in enumerate((("+", "L"), ("-", "L"), ("+", "R"), ("-", "R"))):
                if p + 6000 > w.chrom_len(chrom):
                    break
                a = [(p, p + 299), (p + 1000, p + 1299), (p + 2000, p + 2299), (p + 3000, p + 3399)]
                if side == "L":
                    b = [(p + 650 + 10 * k, p + 1299), a[2], a[3]]
                else:
                    b = [a[0], a[1], (p + 2000, p + 2640 + 10 * k)]
                g = Gene("ALT%d_%d" % (ci + 1, k + 1), chrom, strand)
                g.transcripts.append(Transcript(g.id + ".t1", g.id, chrom, strand, a, True, "alt-terminal"))
                g.hidden.append(Transcript(g.id + ".h1", g.id, chrom, strand, b, False, "alt-terminal-exon-inside-intron"))
                for intr in g.transcripts[0].introns:
                    w.plant_sites(chrom, intr, strand)
                w.genes.append(g)
                p += 3400 + 2500
        # unannotated isoforms that differ from an annotated one by ONE acceptor / donor moved by 25 bp (reported as a minor difference of the
        # annotated isoform): their full-length path is substituted with that isoform, before or after the isoform's own path
        for ci, chrom in enumerate(w.chrom_order):
            p = max([g.end for g in w.genes if g.chrom == chrom] + [1000]) + 2500
            for k, (strand, side) in enumerate((("+", "L"), ("-", "L"), ("+", "R"), ("-", "R"))):
                if p + 6000 > w.chrom_len(chrom):
                    break
                a = [(p, p + 130), (p + 640, p + 921), (p + 1790, p + 2160), (p + 2831, p + 3133)]
                b = list(a)
                if side == "L":
                    b[1] = (a[1][0] + 25, a[1][1])
                else:
                    b[2] = (a[2][0], a[2][1] - 25)
                g = Gene("SH%d_%d" % (ci + 1, k + 1), chrom, strand)
                g.transcripts.append(Transcript(g.id + ".t1", g.id, chrom, strand, a, True, "shifted-site-host"))
                g.hidden.append(Transcript(g.id + ".h1", g.id, chrom, strand, b, False, "site-moved-by-25"))
                for intr in g.transcripts[0].introns + g.hidden[0].introns:
                    w.plant_sites(chrom, intr, strand)
                w.genes.append(g)
                p += 3200 + 2500
        # annotated isoforms that share ONE intron chain: t2 = t1 cut at an alternative polyA site, t3 = last intron of t1 retained
        for ci, chrom in enumerate(w.chrom_order):
            p = max([g.end for g in w.genes if g.chrom == chrom] + [1000]) + 2500
            for k, strand in enumerate("+-"):
                if p + 6000 > w.chrom_len(chrom):
                    break
                a = [(p, p + 205), (p + 748, p + 953), (p + 1961, p + 2104), (p + 2862, p + 2993)]
                if strand == "-":
                    a = sorted((2 * p + 2993 - e, 2 * p + 2993 - s_) for s_, e in a)
                g = Gene("SC%d_%d" % (ci + 1, k + 1), chrom, strand)
                if strand == "+":
                    variants = [a, a[:3], a[:2] + [(a[2][0], a[3][1])]]
                else:
                    variants = [a, a[1:], [(a[0][0], a[1][1])] + a[2:]]
                for vi, ex in enumerate(variants):
                    g.transcripts.append(Transcript("%s.t%d" % (g.id, vi + 1), g.id, chrom, strand, ex, True, "shared-intron-chain"))
                for intr in g.transcripts[0].introns:
                    w.plant_sites(chrom, intr, strand)
                w.genes.append(g)
                p += 3000 + 2500
        zoo_from = len(w.genes)
        thin = []
        for g in w.genes:
            for t in g.transcripts:
                for _ in range(5):
                    w.read_from_transcript(t, mode=rng.choice(("full", "full", "trunc5", "trunc3")), jitter=0, polya=rng.random() < 0.7,
                                           flag=rng.choice((0, 16)))
            for t in g.hidden:
                for _ in range(10 if t.kind == "alt-terminal-exon-inside-intron" else 6):
                    w.read_from_transcript(t, mode="full", jitter=0, polya=True, flag=rng.choice((0, 16)))
        # unannotated exon-skipping isoforms whose reads are truncated at ONE side, at four different positions inside the terminal exon and
        # far (> apa_delta) from the end of the annotated isoform that shares the terminal intron: the end of the novel model on that side is
        # taken from the other isoform's reads and then corrected towards the model's own reads (left and right twin, both strands)
        for ci, chrom in enumerate(w.chrom_order):
            p = max([g.end for g in w.genes + thin if g.chrom == chrom] + [1000]) + 2500
            for k, (strand, side) in enumerate((("+", "R"), ("-", "R"), ("+", "L"), ("-", "L"))):
                if p + 6000 > w.chrom_len(chrom):
                    break
                a = [(p, p + 599), (p + 1000, p + 1199), (p + 1700, p + 1949), (p + 2500, p + 3099)]
                g = Gene("END%d_%d" % (ci + 1, k + 1), chrom, strand)
                g.transcripts.append(Transcript(g.id + ".t1", g.id, chrom, strand, a, True, "ends-host"))
                skip = [a[0], a[2], a[3]] if side == "R" else [a[0], a[1], a[3]]
                g.hidden.append(Transcript(g.id + ".h1", g.id, chrom, strand, skip, False, "truncated-on-one-side"))
                for t in g.transcripts + g.hidden:
                    for intr in t.introns:
                        w.plant_sites(chrom, intr, strand)
                thin.append(g)
                for _ in range(6):
                    w.make_read(chrom, list(a), polya=30 if strand == "+" else 0, polyt=30 if strand == "-" else 0, flag=0 if strand == "+" else 16,
                                truth={"src": g.id + ".t1", "class": "exact"})
                for j in range(4):
                    ex = list(skip)
                    if side == "R":
                        ex[-1] = (ex[-1][0], ex[-1][1] - 180 - 40 * j)
                    else:
                        ex[0] = (ex[0][0] + 180 + 40 * j, ex[0][1])
                    three_prime_complete = (side == "L") == (strand == "+")
                    w.make_read(chrom, ex, polya=30 if (strand == "+" and three_prime_complete) else 0, polyt=30 if (strand == "-" and three_prime_complete) else 0,
                                flag=0 if strand == "+" else 16, truth={"src": g.id + ".h1", "class": "truncated-on-one-side"})
                p += 3100 + 2500
        # unannotated exon-skipping isoforms that share their 3'-terminal intron with an annotated four-exon isoform and whose tailed reads
        # end 7 bp beyond the annotated end: the model's 3' end is compared with the annotated end position (both strands)
        for ci, chrom in enumerate(w.chrom_order):
            p = max([g.end for g in w.genes + thin if g.chrom == chrom] + [1000]) + 2500
            for k, strand in enumerate("+-"):
                if p + 6000 > w.chrom_len(chrom):
                    break
                a = [(p, p + 499), (p + 1000, p + 1199), (p + 1700, p + 1949), (p + 2500, p + 2999)]
                g = Gene("SNAP%d_%d" % (ci + 1, k + 1), chrom, strand)
                g.transcripts.append(Transcript(g.id + ".t1", g.id, chrom, strand, a, True, "snap-host"))
                if strand == "+":
                    nov = [a[0], a[2], (a[3][0], a[3][1] + 7)]
                else:
                    nov = [(a[0][0] - 7, a[0][1]), a[1], a[3]]
                g.hidden.append(Transcript(g.id + ".h1", g.id, chrom, strand, nov, False, "end-7bp-beyond-annotated-end"))
                for t in g.transcripts + g.hidden:
                    for intr in t.introns:
                        w.plant_sites(chrom, intr, strand)
                thin.append(g)
                tail = {"polya": 30} if strand == "+" else {"polyt": 30, "flag": 16}
                for _ in range(6):
                    w.make_read(chrom, list(a), truth={"src": g.id + ".t1", "class": "exact"}, **tail)
                for _ in range(8):
                    w.make_read(chrom, list(nov), truth={"src": g.id + ".h1", "class": "end-7bp-beyond-annotated-end"}, **tail)
                p += 3000 + 2500
        # annotated three-exon isoforms with a second polyA site 200 bp INSIDE the terminal exon: 12 tailed reads end at the annotated end, 9 at
        # the inner site; the alignment records come in both orientations (BAM flag 16 or not), whatever the strand of the transcript
        for ci, chrom in enumerate(w.chrom_order):
            p = max([g.end for g in w.genes + thin if g.chrom == chrom] + [1000]) + 2500
            for k, strand in enumerate("+-"):
                if p + 5000 > w.chrom_len(chrom):
                    break
                a = [(p, p + 399), (p + 1000, p + 1399), (p + 2000, p + 2399)]
                g = Gene("APAIN%d_%d" % (ci + 1, k + 1), chrom, strand)
                g.transcripts.append(Transcript(g.id + ".t1", g.id, chrom, strand, a, True, "inner-polya-site"))
                for intr in g.transcripts[0].introns:
                    w.plant_sites(chrom, intr, strand)
                thin.append(g)
                for j in range(21):
                    ex = list(a)
                    if j >= 12:
                        ex = [(a[0][0] + 200, a[0][1]), a[1], a[2]] if strand == "-" else [a[0], a[1], (a[2][0], a[2][1] - 200)]
                    tail = {"polya": 30} if strand == "+" else {"polyt": 30}
                    w.make_read(chrom, ex, flag=16 * (j % 2), truth={"src": g.id + ".t1", "class": "annotated-end" if j < 12 else "inner-polya-site"}, **tail)
                p += 2400 + 2500
        # well covered unannotated four-exon transcripts (105 reads with slightly different ends) plus ONE stray read that carries an extra exon
        # beyond the 5' end (left for '+', right for '-'): a coverage-1 dead branch next to a well covered intron, on either side
        for ci, chrom in enumerate(w.chrom_order[:2]):
            p = max([g.end for g in w.genes + thin if g.chrom == chrom] + [1000]) + 3500
            for k, strand in enumerate("+-"):
                if p + 6500 > w.chrom_len(chrom):
                    break
                a = [(p, p + 399), (p + 1000, p + 1249), (p + 1900, p + 2199), (p + 2900, p + 3399)]
                g = Gene("STRAY%d_%d" % (ci + 1, k + 1), chrom, strand)
                g.hidden.append(Transcript(g.id + ".h1", g.id, chrom, strand, a, False, "well-covered-novel-with-a-stray-read"))
                for intr in g.hidden[0].introns:
                    w.plant_sites(chrom, intr, strand)
                thin.append(g)
                tail = {"polya": 30} if strand == "+" else {"polyt": 30, "flag": 16}
                for j in range(105):
                    ex = list(a)
                    if strand == "+":
                        ex[0] = (a[0][0] + (j % 7) * 3, a[0][1])
                    else:
                        ex[-1] = (a[-1][0], a[-1][1] - (j % 7) * 3)
                    w.make_read(chrom, ex, truth={"src": g.id + ".h1", "class": "exact"}, **tail)
                if strand == "+":
                    stray = [(p - 900, p - 700), (p, a[0][1])] + a[1:]          # the stray intron ends right where the true reads begin
                    w.plant_sites(chrom, (p - 699, p - 1), strand)
                else:
                    stray = a[:-1] + [(a[-1][0], a[-1][1]), (a[-1][1] + 700, a[-1][1] + 900)]
                    w.plant_sites(chrom, (a[-1][1] + 1, a[-1][1] + 699), strand)
                w.make_read(chrom, stray, truth={"src": g.id + ".h1", "class": "stray-read-with-an-extra-5prime-exon"}, **tail)
                p += 3400 + 4500
        # unannotated three-exon transcripts seen by only two full-length reads (too few to be reported) plus unspliced 3' fragments with a
        # tail lying inside their 3'-terminal exon (on both strands; the runs on this world report novel unspliced transcripts), and
        # free-standing unspliced tailed loci of both strands
        for ci, chrom in enumerate(w.chrom_order):
            p = max([g.end for g in w.genes + thin if g.chrom == chrom] + [1000]) + 2500
            for k, (strand, n_fl) in enumerate((("+", 2), ("-", 2), ("+", 1), ("-", 1))):
                if p + 9000 > w.chrom_len(chrom):
                    break
                ex = [(p, p + 420 + 17 * k), (p + 1100, p + 1350), (p + 2100, p + 2560 + 13 * k)]
                g = Gene("THIN%d_%d" % (ci + 1, k + 1), chrom, strand)
                g.hidden.append(Transcript(g.id + ".h1", g.id, chrom, strand, ex, False, "thin-novel-with-3prime-fragments"))
                for intr in g.hidden[0].introns:
                    w.plant_sites(chrom, intr, strand)
                thin.append(g)
                tail = {"polya": 30} if strand == "+" else {"polyt": 30, "flag": 16}
                for _ in range(n_fl):      # fewer than any data type's minimal support of a novel isoform needs (nanopore 3, pacbio 2)
                    w.make_read(chrom, list(ex), truth={"src": g.id + ".h1", "class": "thin-novel-full-length"}, **tail)
                for j in range(3 + k % 2):
                    frag = [(ex[2][0] + 60 + 25 * j, ex[2][1])] if strand == "+" else [(ex[0][0], ex[0][1] - 60 - 25 * j)]
                    w.make_read(chrom, frag, truth={"class": "unspliced-3prime-fragment-of-thin-novel"}, **tail)
                # free-standing unspliced locus
                q = p + 4200
                for j in range(5):
                    frag = [(q + 11 * j, q + 700)] if strand == "+" else [(q, q + 700 - 11 * j)]
                    w.make_read(chrom, frag, truth={"class": "unspliced-tailed-novel"}, **tail)
                p += 4200 + 700 + 2500
        # two neighbouring annotated genes of one strand and an unannotated read-through transcript that takes ONE annotated intron from each
        # (an exact tie in "which gene does the novel transcript belong to"); the gene ids sort like the coordinates at one locus and the
        # other way round at the next
        for ci, chrom in enumerate(w.chrom_order[:2]):
            p = max([g.end for g in w.genes + thin if g.chrom == chrom] + [1000]) + 3000
            for k, strand in enumerate("+-+-"):
                if p + 9500 > w.chrom_len(chrom):
                    break
                ea = [(p, p + 300), (p + 900, p + 1150), (p + 1800, p + 2200)]
                eb = [(p + 3700, p + 4000), (p + 4600, p + 4850), (p + 5500, p + 5900)]
                ida, idb = ("RT%d_%da" % (ci + 1, k + 1), "RT%d_%db" % (ci + 1, k + 1)) if k < 2 else ("RT%d_%dz" % (ci + 1, k + 1), "RT%d_%dc" % (ci + 1, k + 1))
                tail = {"polya": 30} if strand == "+" else {"polyt": 30, "flag": 16}
                for gid, ex in ((ida, ea), (idb, eb)):
                    g = Gene(gid, chrom, strand)
                    g.transcripts.append(Transcript(gid + ".t1", gid, chrom, strand, ex, True, "read-through-neighbour"))
                    for intr in g.transcripts[0].introns:
                        w.plant_sites(chrom, intr, strand)
                    w.genes.append(g)
                    for j in range(6):
                        w.make_read(chrom, list(ex), truth={"src": gid + ".t1", "class": "exact"}, **tail)
                rt = [ea[0], ea[1], eb[1], eb[2]]
                w.plant_sites(chrom, (ea[1][1] + 1, eb[1][0] - 1), strand)
                for j in range(10):
                    w.make_read(chrom, list(rt), truth={"class": "read-through-of-two-genes"}, **tail)
                p += 5900 + 3500
        # a gene-free spliced read cluster that begins 40 bp after the last read of an annotated gene's cluster ends; the end of the first
        # cluster sits at chosen offsets within the 256-bp grid (214..217 and 10 modulo 256), so that every shift that is not a multiple
        # of 256 moves the two facing ends of at least one pair from one grid cell into two (or back): clusters are separated by real overlap only
        for ci, chrom in enumerate(w.chrom_order[:1]):
            p = max([g.end for g in w.genes + thin if g.chrom == chrom] + [1000]) + 3000
            for k, target in enumerate((214, 215, 216, 217, 10)):
                if p + 4500 > w.chrom_len(chrom):
                    break
                p += (target - (p + 1200)) % 256
                strand = "+-"[k % 2]
                ea = [(p, p + 400), (p + 900, p + 1200)]
                g = Gene("NEAR%d_%d" % (ci + 1, k + 1), chrom, strand)
                g.transcripts.append(Transcript(g.id + ".t1", g.id, chrom, strand, ea, True, "gene-next-to-a-gene-free-cluster"))
                w.plant_sites(chrom, g.transcripts[0].introns[0], strand)
                w.genes.append(g)
                for j in range(6):
                    w.make_read(chrom, list(ea), truth={"src": g.id + ".t1", "class": "exact"})
                q = ea[1][1] + 41
                eb = [(q, q + 300), (q + 700, q + 1000)]
                w.plant_sites(chrom, (eb[0][1] + 1, eb[1][0] - 1), strand)
                for j in range(6):
                    w.make_read(chrom, list(eb), truth={"class": "gene-free-cluster-40bp-after-a-gene"})
                p = eb[1][1] + 3000
        # two isoforms with one intron chain and different ends; reads that run 100 bp past the end of one (right) and begin 200 bp before the start of
        # the other (left): which isoform an inconsistent read is put on depends on the LENGTH of the elongation, on either side alike
        for ci, chrom in enumerate(w.chrom_order[1:2]):
            p = max([g.end for g in w.genes + thin if g.chrom == chrom] + [1000]) + 3000
            for k, strand in enumerate("+-+-"):
                if p + 4500 > w.chrom_len(chrom):
                    break
                if k < 2:
                    t1 = [(p, p + 400), (p + 1000, p + 1200), (p + 2000, p + 2200)]
                    t2 = [(p + 200, p + 400), (p + 1000, p + 1200), (p + 2000, p + 2500)]
                    rd = [(p, p + 400), (p + 1000, p + 1200), (p + 2000, p + 2300)]
                else:
                    t1 = [(p + 300, p + 500), (p + 1300, p + 1500), (p + 2100, p + 2500)]
                    t2 = [(p, p + 500), (p + 1300, p + 1500), (p + 2100, p + 2300)]
                    rd = [(p + 200, p + 500), (p + 1300, p + 1500), (p + 2100, p + 2500)]
                g = Gene("ELG%d_%d" % (ci + 1, k + 1), chrom, strand)
                g.transcripts.append(Transcript(g.id + ".t1", g.id, chrom, strand, t1, True, "elongation-pair"))
                g.transcripts.append(Transcript(g.id + ".t2", g.id, chrom, strand, t2, True, "elongation-pair"))
                for intr in g.transcripts[0].introns:
                    w.plant_sites(chrom, intr, strand)
                w.genes.append(g)
                for j in range(4):
                    w.make_read(chrom, list(rd), truth={"class": "elongated-100-on-one-side-200-on-the-other"})
                p += 2500 + 3000
        # an isoform that contains the read and ends 400 bp after the read's polyA site, and one with three more (30-bp) introns that ends at
        # the polyA site and begins 10 bp after the read does: how many isoforms are kept as candidates depends on how far the read sticks out of
        # an isoform, on either side alike
        for ci, chrom in enumerate(w.chrom_order[2:3]):
            p = max([g.end for g in w.genes + thin if g.chrom == chrom] + [1000]) + 3000
            for k, strand in enumerate("+-"):
                if p + 6500 > w.chrom_len(chrom):
                    break

                def mx(lst):
                    return list(lst) if strand == "+" else sorted((2 * p + 3000 - b, 2 * p + 3000 - a) for a, b in lst)
                ta = mx([(p, p + 1100), (p + 2100, p + 3000)])
                tb = mx([(p + 110, p + 300), (p + 331, p + 500), (p + 531, p + 700), (p + 731, p + 1100), (p + 2100, p + 2600)])
                rd = mx([(p + 100, p + 1100), (p + 2100, p + 2600)])
                g = Gene("XR%d_%d" % (ci + 1, k + 1), chrom, strand)
                g.transcripts.append(Transcript(g.id + ".t1", g.id, chrom, strand, ta, True, "sticks-out-pair"))
                g.transcripts.append(Transcript(g.id + ".t2", g.id, chrom, strand, tb, True, "sticks-out-pair"))
                for t_ in g.transcripts:
                    for intr in t_.introns:
                        w.plant_sites(chrom, intr, strand)
                w.genes.append(g)
                for j in range(5):
                    w.make_read(chrom, list(rd), truth={"class": "sticks-out-of-one-isoform-by-10"}, **({"polya": 30} if strand == "+" else {"polyt": 30, "flag": 16}))
                p += 3000 + 3000
        # an isoform with TWO 30-bp introns that error-free reads retain inside one exon (first, middle or last exon of the read)
        for ci, chrom in enumerate(w.chrom_order[0:1]):
            p = max([g.end for g in w.genes + thin if g.chrom == chrom] + [1000]) + 3000
            for k, (strand, where) in enumerate((("+", 0), ("-", 2), ("+", 1), ("-", 0))):
                if p + 7000 > w.chrom_len(chrom):
                    break
                blocks = [(p, p + 1000), (p + 2000, p + 3000), (p + 4000, p + 5000)]
                a_, b_ = blocks[where]
                split_ = [(a_, a_ + 200), (a_ + 231, a_ + 500), (a_ + 531, b_)]
                iso = blocks[:where] + split_ + blocks[where + 1:]
                g = Gene("MI2_%d_%d" % (ci + 1, k + 1), chrom, strand)
                g.transcripts.append(Transcript(g.id + ".t1", g.id, chrom, strand, iso, True, "two-micro-introns-in-one-exon"))
                for intr in g.transcripts[0].introns:
                    w.plant_sites(chrom, intr, strand)
                w.genes.append(g)
                for j in range(5):
                    w.make_read(chrom, list(blocks), truth={"class": "retains-two-micro-introns-in-one-exon"}, **({"polya": 30} if strand == "+" else {"polyt": 30, "flag": 16}))
                p += 5000 + 3000
        # genes without reads of their own next to a lone unspliced read: the read begins right after the last base of the gene (no common base),
        # or shares exactly one base with it; the mirror image has these reads at the other end of the gene
        for ci, chrom in enumerate(w.chrom_order[2:3]):
            p = max([g.end for g in w.genes + thin if g.chrom == chrom] + [1000]) + 4000
            for k, (strand, common) in enumerate((("+", 0), ("-", 0), ("+", 1), ("-", 1))):
                if p + 6000 > w.chrom_len(chrom):
                    break
                ex = [(p, p + 300), (p + 1000, p + 1200), (p + 2000, p + 2500)]
                g = Gene("ADJ%d_%d" % (ci + 1, k + 1), chrom, strand)
                g.transcripts.append(Transcript(g.id + ".t1", g.id, chrom, strand, ex, True, "gene-without-reads"))
                for intr in g.transcripts[0].introns:
                    w.plant_sites(chrom, intr, strand)
                w.genes.append(g)
                if k % 2 == 0:
                    w.make_read(chrom, [(p + 2501 - common, p + 3000)], truth={"class": "lone-read-%d-common-bases-with-the-gene" % common})
                else:
                    w.make_read(chrom, [(p - 500, p - 1 + common)], truth={"class": "lone-read-%d-common-bases-with-the-gene" % common})
                p += 3000 + 4000
        # the zoo loci that contain no exact positional tie (they bring their own error-free reads)
        w.genes += thin
        world2.add_zoo(w, ("ambiguous_only", "contested", "intronic", "apa", "same_coords"))
        # the orientation of the alignment record (BAM flag 16) says nothing about the strand of the transcript: every second tailed read of
        # the loci with two polyA sites is stored in the other orientation (cDNA reads come in both)
        k_ = 0
        for r in w.reads:
            if str(r.truth.get("class", "")).startswith("reference-chain-"):
                k_ += 1
                if k_ % 2:
                    r.flag ^= 16
        return w, True
    w = world2.rich_world(seed, n_chroms=3, genes_per_chrom=3, reads_per_t=5, hidden_cov=5, multimappers=False, unmapped=1,
                          zoo=("ambiguous_only", "contested", "intronic", "apa", "alt_terminal", "shifted_site", "shared_chain", "same_coords"))
    return w, False


def run(chk, scratch):
    thorough = chk.tier == "thorough"
    chk.rule = ("worlds below the region-splitting thresholds: (a) rich noisy worlds, (b) event worlds (every left/right specific alignment artefact in both "
                "orientations), (c) noise-free worlds; each run as is, shifted by k in {1,7,255,256,257,1000,4099} and reflected; data types rotated. "
                "non-trivial = distinct (left/right-specific event name, strand) pairs seen in compared reads + (transform, k, world kind)")
    ks = [1, 7, 255, 256, 257, 1000, 4099]
    jobs = []
    n_seeds = 5 if thorough else 1
    for si in range(n_seeds):
        for kind in ("rich", "events", "noise-free"):
            jobs.append((chk.seed * 23 + si, kind, ("nanopore", "pacbio_ccs", "assembly")[(si + len(kind)) % 3]))
    for seed, kind, dt in jobs:
        d = os.path.join(scratch, "w%d_%s" % (seed, kind))
        w, noise_free = make_world(seed, kind)
        pipeline.write_world(w, d)
        variants = [("orig", d, None)]
        my_ks = ks if thorough else ([ks[(seed + len(kind)) % len(ks)], ks[(seed + 3 + len(kind)) % len(ks)]])
        for k in my_ks:
            dk = os.path.join(scratch, "w%d_%s_k%d" % (seed, kind, k))
            pipeline.write_world(transform.shifted(w, k, seed=seed + k), dk)
            variants.append(("shift%d" % k, dk, k))
        dr = os.path.join(scratch, "w%d_%s_refl" % (seed, kind))
        wr, L = transform.reflected(w)
        pipeline.write_world(wr, dr)
        variants.append(("reflected", dr, None))
        extra = ["--count_exons", "--check_canonical"]
        if kind == "noise-free":
            extra += ["--report_novel_unspliced", "true"]

        def one(v):
            name, dd, k = v
            out = os.path.join(dd, "out")
            r = pipeline.run(dd, out, data_type=dt, threads=1 + (seed + len(kind)) % 2, extra=extra)
            return v, out, r
        outs = {}
        for v, out, r in runner.parallel(one, variants, workers=8):
            name, dd, k = v
            if r["rc"] is None:
                chk.inconclusive.append("watchdog expired: world %d %s %s" % (seed, kind, name))
                continue
            if r["rc"] != 0:
                chk.violation("run-failed:" + ("reflected" if name == "reflected" else "shifted" if k else "original"),
                              "world=%d kind=%s variant=%s: %s" % (seed, kind, name, pipeline.fail_text(r)), {"world_seed": seed, "kind": kind, "variant": name})
                continue
            outs[name] = (out, k)
        if "orig" not in outs:
            continue
        for name, (out, k) in outs.items():
            wit = {"world_seed": seed, "kind": kind, "variant": name, "data_type": dt}
            desc = "world=%d kind=%s data_type=%s %s" % (seed, kind, dt, name)
            if name.startswith("shift"):
                compare_shift(chk, outs["orig"][0], out, k, desc, wit)
                chk.nontrivial.add(("shift", k, kind))
            elif name == "reflected":
                compare_reflection(chk, w, outs["orig"][0], out, L, desc, wit, noise_free)
                chk.nontrivial.add(("reflection", 0, kind))
        chk.sample({"world": seed, "kind": kind, "data_type": dt, "variants": sorted(outs)}, limit=3)
        if chk.violations and not getattr(chk, "witness_files", None):
            chk.witness_files = [os.path.join(d, f) for f in ("g.fa", "a.gtf", "r.bam", "r.bam.bai")]
    chk.assumptions = ["events printed by 5'/3' are invariant under reflection, events printed by raw subtype name swap _left/_right; coordinates inside event strings are "
                       "mirrored; distances are invariant", "novel transcript ids are compared by structure under reflection (numbering follows coordinate order)",
                       "model comparison under reflection only for noise-free worlds"]
    chk.min_nontrivial = 6
