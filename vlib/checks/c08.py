"""C08 — multi-mapped reads resolve to one best locus, order-independently, counted once.

Monitors:
 (a) contract on the real MultimapResolver.resolve driven in-process on generated BasicReadAssignment lists: post-condition =
     the priority model (vlib/oracles/multimap.py); every permutation of lists of <= 5 records (sampled above) must retain the
     same set of alignments;
 (b) the same model applied offline to every resolution logged by the `resolve` monitor inside real CLI runs;
 (c) CLI runs on paralog worlds: per read id the retained records are compared between chromosome processing orders
     (chromosome lengths padded differently) and between default and --high_memory; losers must be absent from
     read_assignments.tsv, corrected_reads.bed and transcript_model_reads.tsv.
"""
import itertools
import os
import random
import shutil
from collections import defaultdict
from concurrent.futures import ProcessPoolExecutor

from vlib import runner, pipeline, world, world2, parse
from vlib.oracles import multimap

LEVEL = "exploration"
TYPES = ["unique", "unique_minor_difference", "ambiguous", "inconsistent", "inconsistent_non_intronic", "inconsistent_ambiguous",
         "noninformative", "intergenic"]


def _worker(job):
    from vlib import repo_import
    repo_import.setup_path()
    ia = repo_import.mod("src.isoform_assignment")
    mr = repo_import.mod("src.multimap_resolver")
    seed, count = job
    import logging
    logging.getLogger("IsoQuant").addHandler(logging.NullHandler())
    logging.getLogger("IsoQuant").setLevel(logging.CRITICAL)
    rng = random.Random(seed)
    res = {"n": 0, "viol": [], "classes": set(), "perm_sets": 0, "samples": []}
    resolver = mr.MultimapResolver(mr.MultimapResolvingStrategy.take_best)

    def build(spec, idx):
        a = ia.BasicReadAssignment.__new__(ia.BasicReadAssignment)
        a.assignment_id = idx
        a.read_id = "read"
        a.chr_id = spec["chr"]
        a.start, a.end = spec["start"], spec["end"]
        a.genomic_region = tuple(spec["region"])
        a.multimapper = spec["mm"]
        a.polyA_found = False
        a.assignment_type = ia.ReadAssignmentType[spec["type"]]
        a.gene_assignment_type = ia.ReadAssignmentType[spec["type"]]
        a.penalty_score = spec["pen"]
        a.isoforms = list(spec["iso"])
        a.genes = list(spec["gene_list"])
        return a

    def summ(a):
        return {"chr": a.chr_id, "start": a.start, "end": a.end, "type": a.assignment_type.name, "mm": bool(a.multimapper),
                "iso": sorted(a.isoforms), "gene_list": sorted(a.genes)}

    for _ in range(count):
        n = rng.choice((2, 2, 3, 3, 4, 5, 6))
        specs = []
        # few loci so that duplicates and equal coordinates on different chromosomes occur
        for i in range(n):
            if specs and rng.random() < 0.2:
                sp = dict(rng.choice(specs))          # exact duplicate record
                specs.append(sp)
                continue
            t = rng.choice(TYPES)
            chrom = rng.choice(("chr1", "chr2", "chr3"))
            start = rng.choice((1000, 1000, 5000, 9000))
            iso = []
            if t not in ("noninformative", "intergenic"):
                k = 1 if t in ("unique", "unique_minor_difference", "inconsistent", "inconsistent_non_intronic") else rng.randint(2, 3)
                iso = ["%s_%d_t%d" % (chrom, start, j) for j in rng.sample(range(1, 5), k)]
            specs.append({"chr": chrom, "start": start, "end": start + rng.choice((800, 800, 1500)), "region": (start - rng.choice((0, 200)), start + 3000),
                          "mm": rng.random() < 0.6, "type": t, "pen": rng.choice((0.0, 0.5, 0.5, 1.0, 2.0)) if "inconsistent" in t else 0.0,
                          "iso": iso, "gene_list": sorted(set(x.rsplit("_t", 1)[0] for x in iso))})
        if sum(1 for s in specs if not s["mm"]) > 1 and rng.random() < 0.7:
            # normally at most one primary alignment per read
            first = True
            for s in specs:
                if not s["mm"]:
                    if not first:
                        s["mm"] = True
                    first = False
        perms = list(itertools.permutations(range(n))) if n <= 5 else [tuple(rng.sample(range(n), n)) for _ in range(40)]
        retained_sets = {}
        res["n"] += 1
        cls = tuple(sorted(set(multimap.klass(s) for s in specs)))
        dup = len(set(multimap.ident(s) for s in specs)) < len(specs)
        res["classes"].add((cls, dup, n))
        for perm in perms:
            lst = [build(specs[i], k) for k, i in enumerate(perm)]
            before = [summ(a) for a in lst]
            try:
                out = resolver.resolve(lst)
            except Exception as e:
                res["viol"].append(("resolve-exception", repr(e)[:200], [specs[i] for i in perm]))
                break
            after = [summ(a) for a in out]
            for key, text in multimap.judge(before, after):
                res["viol"].append((key, text, [specs[i] for i in perm]))
            kept = frozenset(multimap.ident(before[i]) for i, a in enumerate(after) if a["type"] != "suspended")
            retained_sets.setdefault(kept, perm)
        res["perm_sets"] += len(perms)
        if len(retained_sets) > 1:
            ks = list(retained_sets.items())
            kinds = set(s["type"] for s in specs if multimap.klass(s) == min(multimap.klass(x) for x in specs))
            res["viol"].append(("retained-set-depends-on-record-order:" + "+".join(sorted(kinds)),
                                "order %s retains %s, order %s retains %s" % (ks[0][1], sorted(ks[0][0]), ks[1][1], sorted(ks[1][0])), specs))
        if len(res["samples"]) < 2 and len(cls) > 1:
            res["samples"].append({"records": [(s["chr"], s["start"], s["type"], "secondary" if s["mm"] else "primary") for s in specs]})
    res["classes"] = [list(map(str, c)) for c in res["classes"]]
    return res


def pad_world_variant(w, d, variant):
    """Same sequences/annotation/reads; chromosome lengths padded so that the processing order (by length) changes."""
    import copy
    from vlib.world import World
    v = World(w.seed)
    v.chrom_order = list(w.chrom_order)
    rng = random.Random(variant)
    order = list(w.chrom_order)
    rng.shuffle(order)
    for k, c in enumerate(order):
        pad = 3000 * (k + 1) * variant
        v.chroms[c] = list(w.chroms[c]) + list("ACGT" * (pad // 4))
    v.genes = w.genes
    v.reads = w.reads
    pipeline.write_world(v, d)
    return v


def run(chk, scratch):
    thorough = chk.tier == "thorough"
    chk.rule = ("(a) generated lists of 2-6 alignment records per read (all assignment types, primary/secondary flags, same/different chromosomes, equal "
                "coordinates on different chromosomes, exact duplicates) x every permutation (<= 5 records; 40 sampled permutations for 6) through the real "
                "MultimapResolver.resolve; (b) every resolution logged inside CLI runs; (c) paralog worlds run with different chromosome processing orders and "
                "memory modes. non-trivial = lists with >= 2 distinct priority classes, a tie, or duplicates")
    n_lists = 60000 if thorough else 4000
    jobs = [(chk.seed * 977 + i, n_lists // 16) for i in range(16)]
    perm_total = 0
    with ProcessPoolExecutor(max_workers=16) as ex:
        for res in ex.map(_worker, jobs):
            chk.note(n=res["n"])
            perm_total += res["perm_sets"]
            for c in res["classes"]:
                chk.nontrivial.add(tuple(c))
            for s in res["samples"]:
                chk.sample(s, limit=3)
            for key, text, specs in res["viol"]:
                chk.violation(key, "resolver contract: %s; records %s" % (text, [(s["chr"], s["start"], s["end"], s["type"], "sec" if s["mm"] else "prim", s["pen"]) for s in specs]),
                              {"records": specs})
    chk.extra["permutations_resolved"] = perm_total
    # CLI part
    n_worlds = 6 if thorough else 2
    logged = 0
    compared = 0
    for wi in range(n_worlds):
        seed = chk.seed * 31 + wi
        d0 = os.path.join(scratch, "w%d_v0" % wi)
        w = world2.rich_world(seed, n_chroms=4, genes_per_chrom=2, reads_per_t=3, hidden_cov=3, zoo=world2.ZOO_ALL)
        # more multi-mapper families: inconsistent and noninformative alignments on the paralogs
        rng = w.rng
        fam = [g for g in w.genes if g.id == "G1_1" or g.id.startswith("P")]
        for k in range(10):
            name = "mx%04d" % k
            order = list(fam)
            rng.shuffle(order)
            for j, g in enumerate(order[:rng.randint(2, len(order))]):
                t = g.transcripts[0]
                ex = list(t.exons)
                kind = rng.choice(("full", "skip", "intronic"))
                if kind == "skip" and len(ex) >= 4:
                    ex = ex[:1] + ex[2:]
                elif kind == "intronic":
                    s = ex[0][1] + 60
                    ex = [(s, s + 120)]
                w.make_read(t.chrom, ex, name=name, flag=(0 if j == 0 else 256), mapq=60,
                            truth={"multimap": True, "class": "mx-" + kind})
        # reads whose best alignments are full-length copies of two DIFFERENT isoforms of ONE gene (number of genes != number of isoforms):
        # (a) primary on the first isoform (wins alone), (b) primary unspliced in a gene-free stretch, both isoform copies secondary (tie)
        n_iso_pairs = 0
        for g in w.genes:
            ts = [t for t in g.transcripts if len(t.exons) >= 3]
            if len(ts) >= 2 and ts[0].introns != ts[1].introns and n_iso_pairs < 4:
                free = world2._free_pos(w, g.chrom, 1500)
                for k in range(4):
                    name = "mmiso%02d_%d" % (n_iso_pairs, k)
                    if k >= 2 and free + 900 < w.chrom_len(g.chrom):
                        w.make_read(g.chrom, [(free + 40 * k, free + 700)], name=name, flag=0, mapq=60, truth={"multimap": True, "class": "mm-two-isoforms-of-one-gene"})
                        first = 256
                    else:
                        first = 0
                    for j, t in enumerate(ts[:2]):
                        w.make_read(t.chrom, list(t.exons), name=name, flag=(first if j == 0 else 256), mapq=60,
                                    truth={"multimap": True, "class": "mm-two-isoforms-of-one-gene"})
                n_iso_pairs += 1
        # a splice site seen ONLY in retained alignments that stay flagged as multi-mapped (secondary record in a gene wins over an unspliced
        # primary record in a gene-free stretch), 4 bp from an unannotated site seen in fewer uniquely mapped reads: transcript construction
        # ignores reads flagged as multi-mapped, so no model may carry the site of the multi-mapped reads
        n_mmsite = 0
        for g in w.genes:
            ts = [t for t in g.transcripts if len(t.exons) >= 4 and t.exons[1][1] - t.exons[1][0] >= 160]
            if len(g.transcripts) == 1 and ts and n_mmsite < 3 and not g.id.startswith(("P", "Z")) and g.id != "G1_1":
                t = ts[0]
                ex = list(t.exons)
                free = world2._free_pos(w, g.chrom, 1500)
                if free + 1200 > w.chrom_len(g.chrom):
                    continue
                tail = {"polya": 30, "flag": 0} if t.strand == "+" else {"polyt": 30, "flag": 16}
                nov = [ex[0], (ex[1][0], ex[1][1] - 60)] + ex[2:]
                nov_mm = [ex[0], (ex[1][0], ex[1][1] - 56)] + ex[2:]
                for k in range(4):
                    w.make_read(g.chrom, nov, truth={"class": "novel-site-uniquely-mapped", "src": t.id}, **tail)
                for k in range(7):
                    name = "mmsite%02d_%d" % (n_mmsite, k)
                    w.make_read(g.chrom, [(free + 30 * k, free + 800)], name=name, flag=0, mapq=60, truth={"multimap": True, "class": "mmsite-primary-unspliced"})
                    w.make_read(g.chrom, nov_mm, name=name, mapq=60, truth={"multimap": True, "class": "mmsite-secondary", "src": t.id},
                                **dict(tail, flag=tail["flag"] | 256))
                n_mmsite += 1
        # genes ALL of whose reads are tied between two isoforms of that one gene (several isoforms, one gene) with a primary record among the tied
        # alignments: (a) two primary records under one read name, (b) a truncated primary record compatible with both isoforms plus a
        # secondary full copy of one; tied reads are flagged as multi-mapped, so no transcript model may be built at such a gene
        from vlib.world import Gene as _G, Transcript as _T
        tie_only = []
        for k_, kind_ in enumerate(("two-primary", "ambiguous-primary")):
            chrom_ = w.chrom_order[k_ % len(w.chrom_order)]
            p_ = world2._free_pos(w, chrom_, 3000)
            if p_ + 6000 > w.chrom_len(chrom_):
                continue
            strand_ = "-+"[k_ % 2]        # (b) needs the 3' end on the side of the shared exons
            e_ = [(p_, p_ + 300), (p_ + 800, p_ + 1000), (p_ + 1500, p_ + 1700), (p_ + 2300, p_ + 2550), (p_ + 3100, p_ + 3400), (p_ + 4000, p_ + 4400)]
            g_ = _G("TIE%d" % (k_ + 1), chrom_, strand_)
            g_.transcripts.append(_T(g_.id + ".t1", g_.id, chrom_, strand_, [e_[0], e_[1], e_[3], e_[4], e_[5]], True, "tie-only"))
            g_.transcripts.append(_T(g_.id + ".t2", g_.id, chrom_, strand_, [e_[0], e_[2], e_[3], e_[4], e_[5]], True, "tie-only"))
            for t_ in g_.transcripts:
                for intr in t_.introns:
                    w.plant_sites(chrom_, intr, strand_)
            w.genes.append(g_)
            tie_only.append(g_)
            tail_ = {"polya": 30} if strand_ == "+" else {"polyt": 30}
            fl_ = 0 if strand_ == "+" else 16
            for j_ in range(8):
                nm_ = "mmtie%d_%d" % (k_, j_)
                if kind_ == "two-primary":
                    w.make_read(chrom_, list(g_.transcripts[0].exons), name=nm_, flag=fl_, mapq=60, truth={"multimap": True, "class": "tie-two-primary"}, **tail_)
                    w.make_read(chrom_, list(g_.transcripts[1].exons), name=nm_, flag=fl_, mapq=60, truth={"multimap": True, "class": "tie-two-primary"}, **tail_)
                else:
                    part_ = [(e_[3][0] + 10, e_[3][1]), e_[4], e_[5]]
                    w.make_read(chrom_, part_, name=nm_, flag=fl_, mapq=60, truth={"multimap": True, "class": "tie-ambiguous-primary"}, **tail_)
                    w.make_read(chrom_, list(g_.transcripts[0].exons), name=nm_, flag=fl_ | 256, mapq=60, truth={"multimap": True, "class": "tie-ambiguous-primary"}, **tail_)
        chk.count("loci_with_a_site_seen_only_in_multimapped_reads", n_mmsite)
        pipeline.write_world(w, d0)
        variants = [("v0", d0, [])]
        dv = os.path.join(scratch, "w%d_v1" % wi)
        pad_world_variant(w, dv, 1)
        variants.append(("v1-reordered", dv, []))
        variants.append(("v0-high-memory", d0, ["--high_memory"]))
        # the same run killed right after its first chromosome was marked as collected and then resumed (-t 1): the alignments of a read on
        # chromosomes collected before and after the kill compete exactly as in an uninterrupted run
        variants.append(("v0-killed-resumed", d0, ["KILL"] + (["--high_memory"] if wi % 2 else [])))
        if thorough:
            dv2 = os.path.join(scratch, "w%d_v2" % wi)
            pad_world_variant(w, dv2, 2)
            variants.append(("v2-reordered", dv2, ["--high_memory"]))

        def one(v):
            name, d, extra = v
            out = os.path.join(d, "out_" + name)
            ev = out + "_ev"
            if extra[:1] == ["KILL"]:
                r1 = pipeline.run(d, out, threads=1, extra=extra[1:], home=out + "_home", mon=["crash"],
                                  cfg={"crash_root": out, "crash_path": "_collected", "crash_path_k": 1, "crash_after": True}, events=ev + "_kill")
                if r1["rc"] != 137:
                    return v, out, ev, dict(r1, rc=None)
                r = runner.run_isoquant(["--resume", "-o", out], out + "_home", mon=["resolve"], events=ev)
                return v, out, ev, r
            r = pipeline.run(d, out, threads=2, extra=extra, home=out + "_home", mon=["resolve"], events=ev)
            return v, out, ev, r
        per_variant = {}
        for v, out, ev, r in runner.parallel(one, variants, workers=4):
            name, d, extra = v
            desc = "world=%d variant=%s" % (seed, name)
            wit = {"world_seed": seed, "variant": name}
            if r["rc"] is None:
                chk.inconclusive.append("watchdog expired: " + desc)
                continue
            if r["rc"] != 0:
                chk.violation("run-failed", "%s: %s" % (desc, pipeline.fail_text(r)), wit)
                continue
            verdict = {}
            for e in runner.load_events(ev):
                if e["k"] != "resolve":
                    continue
                logged += 1
                chk.note()
                for key, text in multimap.judge(e["before"], e["after"]):
                    chk.violation("pipeline:" + key, "%s: read %s: %s" % (desc, e["before"][0]["read"], text), wit)
                verdict[e["before"][0]["read"]] = e["after"]
            o = pipeline.Outputs(out)
            recs = defaultdict(set)
            for a in o.assignments():
                recs[a.read_id].add((a.chr, tuple(a.exons), a.isoform, a.atype + "/gene:" + str(a.info.get("gene_assignment", "?"))))
            # supplementary records of the BAM (0x800) never compete with the primary alignment: nothing is reported at their position, and
            # the reads they belong to are reported where their primary alignment lies
            supp = defaultdict(list)
            prim = defaultdict(list)
            for rd in w.reads:
                if rd.flag & 4 or not rd.truth.get("class", "").endswith(("supplementary-record", "primary-of-chimeric-read")):
                    continue
                (supp if rd.flag & 2048 else prim)[rd.name].append((rd.chrom, rd.pos0 + 1))
            for rid, locs in supp.items():
                printed_at = set((c, e[0][0]) for c, e, i, t in recs.get(rid, ()) if e)
                chk.count("chimeric_reads_judged")
                for c, st in locs:
                    if any(pc == c and abs(ps - st) <= 40 for pc, ps in printed_at):
                        chk.violation("supplementary-record-reported", "%s: read %s is reported at %s:%d, the position of its supplementary record (primary at %s)" %
                                      (desc, rid, c, st, prim.get(rid)), wit)
                for c, st in prim.get(rid, ()):
                    if not any(pc == c and abs(ps - st) <= 40 for pc, ps in printed_at):
                        chk.violation("primary-of-chimeric-read-not-reported", "%s: read %s is not reported at its primary alignment %s:%d (reported at %s)" %
                                      (desc, rid, c, st, sorted(printed_at)[:3]), wit)
            # the resolver's verdict is what the outputs show: every printed record lies on a retained alignment, every retained
            # alignment that carries an assignment is printed (alignments of one read on ONE chromosome are told apart by position)
            for rid, after in verdict.items():
                kept = [(x["chr"], x["start"], x["end"], x["type"]) for x in after if x["type"] != "suspended"]
                dropped = [(x["chr"], x["start"], x["end"]) for x in after if x["type"] == "suspended"]
                printed = set((c, e[0][0], e[-1][1]) for c, e, i, t in recs.get(rid, ()) if e)

                def hits(loc, lst):
                    return any(loc[0] == k[0] and loc[1] <= k[2] and k[1] <= loc[2] for k in lst)
                chk.count("verdicts_compared_with_outputs")
                for loc in printed:
                    if not hits(loc, kept) and hits(loc, dropped):
                        chk.violation("suspended-alignment-printed", "%s: read %s is printed at %s:%d-%d, an alignment the resolver suspended (kept: %s)" %
                                      (desc, rid, loc[0], loc[1], loc[2], kept[:3]), wit)
                # the flag the resolver gave to a retained alignment is the flag that is printed for it
                for c, e, i, t in recs.get(rid, ()):
                    if not e:
                        continue
                    loc = (c, e[0][0], e[-1][1])
                    want = set(k[3] for k in kept if loc[0] == k[0] and loc[1] <= k[2] and k[1] <= loc[2])
                    got = t.split("/gene:")[0]
                    if want and got not in want:
                        chk.violation("printed-flag-differs-from-verdict", "%s: read %s at %s:%d-%d is printed as %s, the resolver's verdict for this alignment is %s" %
                                      (desc, rid, loc[0], loc[1], loc[2], got, sorted(want)), wit)
                for k in kept:
                    if k[3] not in ("noninformative", "intergenic") and not hits(k, list(printed)):
                        chk.violation("retained-alignment-not-printed", "%s: read %s: the resolver kept %s:%d-%d (%s) but no record is printed there (printed: %s)" %
                                      (desc, rid, k[0], k[1], k[2], k[3], sorted(printed)[:3]), wit)
            bed = defaultdict(set)
            for b in o.bed():
                bed[b.name].add((b.chr, b.start, b.end))
            mrd = defaultdict(set)
            for read, m in o.model_reads():
                mrd[read].add(m)
            # transcript construction: every intron of a novel model occurs in the corrected alignment of some read that is NOT flagged as
            # multi-mapped (one BAM record, or several of which the primary one is the only retained alignment)
            n_records = defaultdict(int)
            primary_at = {}
            for rd in w.reads:
                if not rd.flag & 4:
                    n_records[rd.name] += 1
                    if not rd.flag & 0x900:
                        primary_at[rd.name] = (rd.chrom, rd.pos0 + 1)
            counted_introns = defaultdict(set)
            bed_recs = o.bed()
            for b in bed_recs:
                loci = set((c, e[0][0] if e else None) for c, e, i, t in recs.get(b.name, ()))
                single = n_records[b.name] <= 1
                prim_only = len(loci) == 1 and primary_at.get(b.name, (None, -1))[0] == b.chr and abs(primary_at[b.name][1] - (b.start + 1)) <= 40 if b.name in primary_at else False
                if single or prim_only:
                    counted_introns[b.chr] |= set(parse.introns_of(b.exons()))
            mdl = o.models()
            for g_ in tie_only:
                both = [rid for rid, rr in recs.items() if rid.startswith("mmtie") and any(c == g_.chrom and e and e[0][0] >= g_.start - 50 and e[-1][1] <= g_.end + 50 for c, e, i, t in rr)]
                amb = [rid for rid in both if all(t.split("/gene:")[0] == "ambiguous" for c, e, i, t in recs[rid])]
                chk.count("reads_tied_between_isoforms_of_one_gene", len(amb))
                if len(amb) < len(both):
                    chk.count("tie_only_gene_reads_not_reported_as_tied", len(both) - len(amb))
                    continue
                for tid, t in mdl.transcripts.items():
                    if t["chr"] == g_.chrom and min(e[0] for e in t["exons"]) <= g_.end and max(e[1] for e in t["exons"]) >= g_.start:
                        chk.violation("model-built-from-tied-reads", "%s: %s is reported at gene %s, all of whose reads are tied between its two isoforms and flagged "
                                      "ambiguous (tied reads are ignored by transcript construction)" % (desc, tid, g_.id), wit)
            ref_ids = set(t.id for t in w.all_transcripts())
            for tid, t in mdl.transcripts.items():
                if tid in ref_ids:
                    continue
                for intr in parse.introns_of(sorted(t["exons"])):
                    chk.count("novel_model_introns_traced_to_reads")
                    if intr not in counted_introns[t["chr"]]:
                        chk.violation("novel-model-intron-seen-only-in-multimapped-reads", "%s: intron %s:%d-%d of %s occurs in no corrected alignment of a read that is "
                                      "not flagged as multi-mapped" % (desc, t["chr"], intr[0], intr[1], tid), wit)
            per_variant[name] = (recs, bed, mrd)
            # losers suppressed everywhere: BED loci = TSV loci for multi-mapped reads
            mm_reads = set(rd.name for rd in w.reads if rd.truth.get("multimap"))
            for rid in mm_reads:
                tsv_loci = set((c, e[0][0] - 1 if e else None) for c, e, i, t in recs.get(rid, ()))
                bed_chr = set(c for c, s, e in bed.get(rid, ()))
                tsv_chr = set(c for c, e, i, t in recs.get(rid, ()))
                if bed_chr != tsv_chr:
                    chk.violation("loser-not-suppressed-in-bed", "%s: read %s in TSV on %s, in BED on %s" % (desc, rid, sorted(tsv_chr), sorted(bed_chr)), wit)
            shutil.rmtree(out, ignore_errors=True)
        base = per_variant.get("v0")
        if base:
            for name, (recs, bed, mrd) in per_variant.items():
                if name == "v0":
                    continue
                for rid in set(base[0]) | set(recs):
                    compared += 1
                    a = set((c, e, i) for c, e, i, t in base[0].get(rid, ()))
                    b = set((c, e, i) for c, e, i, t in recs.get(rid, ()))
                    kind = "memory-mode" if "high-memory" in name and "reordered" not in name else ("kill-and-resume" if "killed" in name else "chromosome-order")
                    if a != b:
                        chk.violation("retained-alignments-depend-on-%s" % kind,
                                      "world=%d: read %s retained %s in v0 but %s in %s" % (seed, rid, sorted(a)[:3], sorted(b)[:3], name),
                                      {"world_seed": seed, "variant": name, "read": rid})
                    elif set(base[0].get(rid, ())) != set(recs.get(rid, ())):
                        # same alignments retained, but flagged differently (unique / ambiguous)
                        ta = sorted(set(t for c, e, i, t in base[0].get(rid, ())))
                        tb = sorted(set(t for c, e, i, t in recs.get(rid, ())))
                        chk.violation("assignment-flags-depend-on-%s" % kind,
                                      "world=%d: read %s keeps the same alignments but is flagged %s in v0 and %s in %s" % (seed, rid, ta, tb, name),
                                      {"world_seed": seed, "variant": name, "read": rid})
    chk.extra.update({"pipeline_resolutions_judged": logged, "reads_compared_across_orders": compared})
    chk.assumptions = ["the oracle states only what the property states: nothing about penalties or about which of several inconsistent / uninformative "
                       "alignments is chosen, only that the choice does not depend on order"]
    chk.inconclusive_if(logged == 0, "no resolution logged in CLI runs")
    chk.min_nontrivial = 10
