"""C07 — resuming an interrupted run yields the outputs of an uninterrupted run.

Monitor: the launcher's crash monitor wraps builtins.open (write modes), gzip.open (write modes) and os.remove, numbers
the mutations under the output directory and calls os._exit(137) immediately BEFORE mutation n.  With -t 1 the order
is deterministic, so n enumerates every mutation point of both stages and of clean-up.  The interrupted run is then
continued with `--resume` through the same launcher (no crash index) and its final files are compared with a clean run.
"""
import os
import random
import shutil

from vlib import runner, pipeline, world2, world

LEVEL = "fault_enumeration"


def file_kind(path, out):
    rel = os.path.relpath(path, out)
    base = os.path.basename(rel)
    import re
    base = re.sub(r"chr\d+", "CHR", base)
    base = base.replace(pipeline.PREFIX, "P")
    return ("aux/" if "/aux/" in "/" + rel else "") + base


def site_of(ev, out):
    return "%s:%s:%s" % (ev["fn"], ev["op"].split(":")[0], file_kind(ev["path"], out))


CONFIGS = {
    "single-chrom": dict(n_chroms=1, extra=[]),
    "multi-chrom-groups-exons": dict(n_chroms=3, extra=["--read_group", "file", "--count_exons"]),
    "keep-tmp": dict(n_chroms=2, extra=["--keep_tmp"]),
    "annotation-free": dict(n_chroms=2, extra=[], annotated=False),
    "gzipped-outputs": dict(n_chroms=2, extra=[], gz=True),
    # the killed run is a --force run started in a folder that still holds a COMPLETED earlier run (different reads, --keep_tmp)
    # (the earlier run also had ANOTHER annotation that bears the same file name, in another folder; the killed runs start without cached
    # conversions, so they convert the annotation themselves after .params was saved)
    "force-over-previous-run": dict(n_chroms=2, extra=[], dirty=True, fresh_home=True),
    # the killed run starts from the assignments saved by an earlier --keep_tmp run (--read_assignments <prefix>); every run has its own
    # copy of the saved files, because stage locks are written next to them
    "from-saved-assignments": dict(n_chroms=2, extra=[], saved=True),
    # an explicit --read_group file_name with ONE file per experiment (options derived from the number of files must be derived again by a
    # resumed run)
    "file-name-groups-one-file": dict(n_chroms=2, extra=[], rg_file_name=True),
    # genes and transcripts inferred by the converter (no --complete_genedb): the conversion itself touches files under the output folder
    "inferred-genes": dict(n_chroms=2, extra=[], complete=False, fresh_home=True),     # no cached conversion: the killed runs convert, too
    # one run over two experiments (--bam_list): crash points of the first experiment, between the experiments and of the second one
    "two-experiments": dict(n_chroms=2, extra=[], experiments=("EXA", "EXB")),
    # the stages a run leaves out leave files out as well: quantification only, grouped by a BAM tag, with exon / intron tables
    "no-model-construction": dict(n_chroms=2, extra=["--no_model_construction", "--count_exons", "--read_group", "tag:RG"]),
    # the reference as an ordinary gzip file (not BGZF): IsoQuant works on an uncompressed copy that it writes into the output folder
    # (every run has its own copy of the compressed file, so every run builds the index next to it, too: those writes are crash points)
    "gz-reference": dict(n_chroms=2, extra=[], ref_gz=True),
    # ... as a BGZF file: read in place through an index pair (.fai, .gzi) that is built next to the file
    "bgzf-reference": dict(n_chroms=2, extra=[], ref_gz=True, bgzf=True),
    # ... a --force run in a folder where a completed earlier run left ITS uncompressed copy of ANOTHER genome that has the same file name
    "gz-reference-over-previous-run": dict(n_chroms=2, extra=[], ref_gz=True, dirty=True),
    # output folder and inputs given RELATIVE to the working directory of the first run; --resume is issued from another directory with an
    # absolute -o (what the saved parameters hold must not depend on where the first run was started)
    "relative-paths": dict(n_chroms=2, extra=[], relative=True),
    # ... the same with the experiment described in a YAML file that is given by a relative path
    "relative-yaml": dict(n_chroms=2, extra=[], relative=True, yaml=True),
    # many options away from their defaults, among them list-valued and derived ones: what .params stores is read back and every derived
    # setting is derived again by the resumed run
    "many-options": dict(n_chroms=2, extra=["--bam_tags", "RG,NM", "--matching_strategy", "precise", "--model_construction_strategy", "sensitive_ont",
                                            "--report_canonical", "all", "--polya_requirement", "never", "--transcript_quantification", "all",
                                            "--gene_quantification", "unique_inconsistent", "--report_novel_unspliced", "true", "--delta", "3",
                                            "--sqanti_output", "--check_canonical", "--count_exons"]),
}


def make_inputs(cfg, d, seed):
    w = world2.rich_world(seed, n_chroms=cfg["n_chroms"], genes_per_chrom=2, reads_per_t=3, hidden_cov=4,
                          multimappers=cfg["n_chroms"] > 1)
    pipeline.write_world(w, d)
    extra = list(cfg["extra"])
    if cfg.get("experiments"):
        pipeline.write_experiments(w, d, list(cfg["experiments"]), lambda e, k, r: k % 3 == 0 if e == 0 else k % 3 != 0)
    if "--read_group" in extra:
        # read group table file
        tbl = os.path.join(d, "groups.tsv")
        with open(tbl, "w") as f:
            for i, r in enumerate(w.reads):
                if i % 11 == 0:
                    continue    # some reads have no row
                f.write("%s\tgrp%d\n" % (r.name, i % 3))
        i = extra.index("--read_group")
        extra[i + 1] = "file:%s:0:1:\t" % tbl
    if cfg.get("yaml"):
        with open(os.path.join(d, "exp.yaml"), "w") as f_:
            f_.write('[\n  data format: "bam",\n  {\n    name: "%s",\n    long read files: ["%s"],\n    labels: ["lab"]\n  }\n]\n' % (pipeline.PREFIX, os.path.join(d, "r.bam")))
    if cfg.get("ref_gz"):
        import gzip
        os.makedirs(os.path.join(d, "gz"), exist_ok=True)
        if cfg.get("bgzf"):
            import pysam
            pysam.tabix_compress(os.path.join(d, "g.fa"), os.path.join(d, "gz", "g.fa.gz"), force=True)
        else:
            with open(os.path.join(d, "g.fa"), "rb") as f_, gzip.open(os.path.join(d, "gz", "g.fa.gz"), "wb") as g_:
                g_.write(f_.read())
        if cfg.get("dirty"):
            # the earlier run's genome: same file name, same sequence names and lengths, every sequence reversed
            os.makedirs(os.path.join(d, "gz_earlier"), exist_ok=True)
            with open(os.path.join(d, "g.fa")) as f_, gzip.open(os.path.join(d, "gz_earlier", "g.fa.gz"), "wt") as g_:
                name_, seq_ = None, []
                for line_ in list(f_) + [">"]:
                    if line_.startswith(">"):
                        if name_:
                            g_.write(name_ + "".join(seq_)[::-1] + "\n")
                        name_, seq_ = line_, []
                    else:
                        seq_.append(line_.strip())
    if cfg.get("dirty") and cfg.get("annotated", True):
        # the earlier run's annotation: same file name, every second gene left out
        os.makedirs(os.path.join(d, "gtf_earlier"), exist_ok=True)
        import re as _re
        keep_ = {}
        with open(os.path.join(d, "a.gtf")) as f_, open(os.path.join(d, "gtf_earlier", "a.gtf"), "w") as g_:
            for line_ in f_:
                m_ = _re.search(r'gene_id "([^"]+)"', line_)
                if m_ is None or keep_.setdefault(m_.group(1), len(keep_) % 2 == 0):
                    g_.write(line_)
    if cfg.get("rg_file_name"):
        extra += ["--read_group", "file_name"]
        # the file is passed through a symbolic link with another name (a staging folder): the group is named after what stands on the command line
        os.makedirs(os.path.join(d, "staged"), exist_ok=True)
        for suffix in ("", ".bai"):
            os.symlink(os.path.join(d, "r.bam" + suffix), os.path.join(d, "staged", "ctrl.bam" + suffix))
    return extra


def args_for(cfg, d, out, extra, saves=None):
    a = pipeline.std_args(d, out, threads=1, annotated=cfg.get("annotated", True), complete=cfg.get("complete", True), extra=extra,
                          bam_list=os.path.join(d, "exps.list") if cfg.get("experiments") else None)
    if cfg.get("rg_file_name"):
        a[a.index("--bam") + 1] = os.path.join(d, "staged", "ctrl.bam")
    if cfg.get("ref_gz"):
        # every run gets its own copy of the compressed reference: the FASTA index is built NEXT TO the reference file, and the runs of this
        # check execute in parallel (an index half-written by a killed run must not be seen by another run)
        gzd = os.path.join(os.path.dirname(out), "gzin_" + os.path.basename(out))      # not under the output folder: crash points are mutations there
        if not os.path.isdir(gzd):
            shutil.copytree(os.path.join(d, "gz"), gzd)
        a[a.index("-r") + 1] = os.path.join(gzd, "g.fa.gz")
    if cfg.get("yaml"):
        i_ = a.index("--bam")
        a[i_:i_ + 2] = ["--yaml", os.path.join(d, "exp.yaml")]
    if cfg.get("relative"):
        for opt in ("-o", "--bam", "--yaml", "-r", "-g"):
            if opt in a:
                a[a.index(opt) + 1] = os.path.relpath(a[a.index(opt) + 1], d)
    if cfg.get("gz"):
        a.remove("--no_gzip")
    if saves:
        i = a.index("--bam")
        del a[i:i + 2]
        a += ["--read_assignments", os.path.join(saves, pipeline.PREFIX + ".save")]
    return a


def run(chk, scratch):
    thorough = chk.tier == "thorough"
    rng = random.Random(chk.seed)
    chk.rule = ("crash point = a numbered file-system mutation (open for writing/appending, gzip open for writing, remove) under the output "
                "directory of a -t 1 run, after .params was written; the run is killed (os._exit) immediately before it and continued with --resume (every second point with --threads 3); "
                "quick: every distinct call site (function, operation, file kind) of 2 configurations once + random fill; thorough: every crash "
                "point of every configuration + multi-process kills. non-trivial = distinct call sites crashed at")
    conf_names = list(CONFIGS) if thorough else ["multi-chrom-groups-exons", "annotation-free", "force-over-previous-run", "from-saved-assignments", "two-experiments", "inferred-genes", "file-name-groups-one-file", "many-options", "no-model-construction", "gz-reference", "relative-paths", "relative-yaml", "bgzf-reference", "gz-reference-over-previous-run"]
    if os.environ.get("VERIF_C07_CONFIGS"):       # debugging aid: restrict the run to some configurations (the verdict is then only about those)
        conf_names = [c for c in conf_names if c in os.environ["VERIF_C07_CONFIGS"].split(",")]
    total_points = 0
    executed = 0
    sites_seen = set()
    per_conf = {}
    for cname in conf_names:
        cfg = CONFIGS[cname]
        # (one configuration works in a folder whose name has characters that are special in glob patterns)
        d = os.path.join(scratch, cname + ("[1]" if cname == "force-over-previous-run" else ""))
        extra = make_inputs(cfg, d, chk.seed * 7 + len(cname))
        # clean run with the counting monitor
        clean = os.path.join(d, "clean")
        ev = os.path.join(d, "ev_clean")
        stale = None
        if cfg.get("dirty"):
            # earlier run A: every second read, --keep_tmp, completed; its folder is the starting state of every run below
            import pysam
            half = os.path.join(d, "half.bam")
            with pysam.AlignmentFile(os.path.join(d, "r.bam")) as src, pysam.AlignmentFile(half, "wb", header=src.header) as dst:
                for i, a in enumerate(src.fetch(until_eof=True)):
                    if i % 2 == 0:
                        dst.write(a)
            pysam.index(half)
            stale = os.path.join(d, "stale")
            a_args = args_for(cfg, d, stale, extra + ["--keep_tmp"])
            a_args[a_args.index("--bam") + 1] = half
            if cfg.get("ref_gz"):
                a_args[a_args.index("-r") + 1] = os.path.join(d, "gz_earlier", "g.fa.gz")
            if "-g" in a_args:
                a_args[a_args.index("-g") + 1] = os.path.join(d, "gtf_earlier", "a.gtf")
            ra = runner.run_isoquant(a_args, os.path.join(d, "home"))
            if ra["rc"] != 0:
                raise runner.Inconclusive("could not prepare the stale folder: " + pipeline.fail_text(ra))
            # reference = the same options in a CLEAN folder
            ref_clean = os.path.join(d, "ref_clean")
            rr = runner.run_isoquant(args_for(cfg, d, ref_clean, extra), os.path.join(d, "home"))
            if rr["rc"] != 0:
                raise runner.Inconclusive("reference run failed")
            shutil.copytree(stale, clean)
        saves_src = None
        if cfg.get("saved"):
            r0 = runner.run_isoquant(args_for(cfg, d, os.path.join(d, "saving"), extra + ["--keep_tmp"]), os.path.join(d, "home"))
            if r0["rc"] != 0:
                raise runner.Inconclusive("could not prepare saved assignments: " + pipeline.fail_text(r0))
            saves_src = os.path.join(d, "saving", pipeline.PREFIX, "aux")
            shutil.copytree(saves_src, os.path.join(d, "saves_clean"))
        if not cfg.get("fresh_home") and not cfg.get("dirty") and cfg.get("annotated", True):
            # the killed runs start with the annotation cache the monitored run leaves behind (conversion cached), so the monitored run that
            # numbers the crash points must find the conversion cached as well: an unmonitored run of the same command line comes first
            rw = runner.run_isoquant(args_for(cfg, d, os.path.join(d, "warm"), extra, saves=os.path.join(d, "saves_clean") if saves_src else None),
                                     os.path.join(d, "home"), cwd=d if cfg.get("relative") else None)
            if rw["rc"] != 0:
                raise runner.Inconclusive("warm-up run failed: " + pipeline.fail_text(rw))
            shutil.rmtree(os.path.join(d, "warm", pipeline.PREFIX), ignore_errors=True)
        # (killed runs that start without cached conversions are numbered by a monitored run that starts without them, too)
        r = runner.run_isoquant(args_for(cfg, d, clean, extra, saves=os.path.join(d, "saves_clean") if saves_src else None),
                                os.path.join(d, "home_clean" if cfg.get("fresh_home") and cfg.get("dirty") else "home"), mon=["crash"],
                                cfg={"crash_root": clean, "crash_count_index": bool(cfg.get("ref_gz"))}, events=ev, cwd=d if cfg.get("relative") else None)
        if cfg.get("dirty") and r["rc"] == 0:
            # the tree every resumed run is compared with is the clean-folder run
            for rel, why in runner.compare_trees(os.path.join(ref_clean, pipeline.PREFIX), os.path.join(clean, pipeline.PREFIX))[:4]:
                chk.count("force_over_stale_folder_differs_from_clean_folder")
            shutil.rmtree(clean)
            shutil.copytree(ref_clean, clean)
        if r["rc"] is None:
            raise runner.Inconclusive("watchdog expired on the clean run")
        if r["rc"] != 0:
            chk.violation("clean-run-failed:" + cname, "clean run failed: " + pipeline.fail_text(r), {"config": cname})
            continue
        muts = [e for e in runner.load_events(ev) if e["k"] == "mut" and e["n"] is not None]
        muts.sort(key=lambda e: e["n"])
        n_params = max([e["n"] for e in muts if e["path"].endswith((".params", ".params.tmp"))] or [0])
        points = [e for e in muts if e["n"] > n_params]
        total_points += len(points)
        by_site = {}
        for e in points:
            by_site.setdefault(site_of(e, clean), []).append(e["n"])
        if thorough:
            chosen = [e["n"] for e in points]
        else:
            chosen = []
            for s, ns in sorted(by_site.items()):
                chosen.append(ns[0] if len(ns) == 1 else rng.choice(ns))
                # the LAST mutation of a site that is passed several times (e.g. the last of a family of part files): killed after it
                if len(ns) > 1 and ns[-1] not in chosen:
                    chosen.append(ns[-1])
            rest = [e["n"] for e in points if e["n"] not in chosen]
            rng.shuffle(rest)
            budget = 20
            chosen += rest[:max(0, budget - len(chosen))]
            if len(chosen) > 72:
                # quick tier: a seed-dependent sample of the call sites (the thorough tier runs every crash point); the points at which a file
                # that a resumed run would take over is created, renamed or indexed are always kept
                keep_ = {e["n"] for e in points if e["op"] == "rename" or ".fai" in os.path.basename(e["path"]) or ".gzi" in os.path.basename(e["path"]) or
                         os.path.basename(e["path"]).lower().endswith((".fa", ".fasta", ".fna", ".db", ".params", ".params.tmp"))}
                must_ = [n for n in chosen if n in keep_]
                rest_ = [n for n in chosen if n not in keep_]
                rng.shuffle(rest_)
                chosen = sorted(must_ + rest_[:max(0, 72 - len(must_))])
        site_by_n = {e["n"]: site_of(e, clean) for e in points}
        per_conf[cname] = {"mutations": len(muts), "crash_points_in_scope": len(points), "executed": len(chosen),
                           "distinct_sites": len(by_site), "exhaustive": len(chosen) == len(points)}

        lockish = {e["n"] for e in points if "lock" in os.path.basename(e["path"]) or os.path.basename(e["path"]).endswith(("_collected", "_processed"))}

        last_of_site = {ns[-1] for ns in by_site.values() if len(ns) > 1}

        # files a resumed run takes over when it finds them (copies or conversions of its inputs): killed right after they were created
        reusable = {e["n"] for e in points if os.path.basename(e["path"]).lower().endswith((".fa", ".fasta", ".fna", ".db", ".bed", ".gtf", ".fai", ".gzi"))}

        def after(n):
            return n in lockish or n in last_of_site or n in reusable or n % 3 == 2

        # a file that gets its final name by a rename: killed right after it (the complete file is there) AND right before it (what was there
        # before, e.g. the file of an earlier run, is still there); the second variant is listed as -n
        # (the same for the index files of the reference, which are written in place by the library that reads them)
        chosen += [-e["n"] for e in points if (e["op"] == "rename" or os.path.basename(e["path"]).endswith((".fai", ".gzi"))) and e["n"] in chosen]

        def one(n):
            before_rename = n < 0
            n = abs(n)
            aft = False if before_rename else after(n)
            out = os.path.join(d, "crash%d%s" % (n, "b" if before_rename else ""))
            home = os.path.join(d, "home%d%s" % (n, "b" if before_rename else ""))
            if cfg.get("fresh_home"):
                os.makedirs(home)
            else:
                shutil.copytree(os.path.join(d, "home"), home)     # same annotation cache state as the clean run had at the end
            if stale:
                shutil.copytree(stale, out)
            sv = None
            if saves_src:
                sv = os.path.join(d, "saves%d%s" % (n, "b" if before_rename else ""))
                shutil.copytree(saves_src, sv)
            # every third crash point: the process dies immediately AFTER the mutation (a marker file exists, nothing written since has
            # been flushed), otherwise immediately before it
            r1 = runner.run_isoquant(args_for(cfg, d, out, extra, saves=sv), home, mon=["crash"],
                                     cfg={"crash_root": out, "crash_at": n, "crash_after": aft, "crash_count_index": bool(cfg.get("ref_gz"))}, events=os.path.join(d, "ev%d%s" % (n, "b" if before_rename else "")),
                                     cwd=d if cfg.get("relative") else None)
            r2 = None
            if r1["rc"] == 137:
                # every second crash point is resumed with another thread count (the resume parser accepts --threads)
                r2 = runner.run_isoquant(["--resume", "-o", out] + (["--threads", "3"] if n % 2 else []), home, timeout=300)
            return n, out, r1, r2, aft
        for n, out, r1, r2, aft in runner.parallel(one, chosen, workers=12):
            site = site_by_n[n]
            chk.note()
            if r1["rc"] != 137:
                # the mutation order of this run differed from the clean run (should not happen with -t 1)
                chk.inconclusive.append("%s: crash point %d not reached (exit %s)" % (cname, n, r1["rc"]))
                continue
            executed += 1
            sites_seen.add(site)
            chk.nontrivial.add(site)
            wit = {"config": cname, "crash_point": n, "site": site, "options": extra, "resumed_with": "--threads 3" if n % 2 else "the saved options",
                   "killed": "after the mutation" if aft else "before the mutation"}
            chk.count("killed_after_mutation" if aft else "killed_before_mutation")
            if r2["rc"] is None:
                chk.inconclusive.append("%s: watchdog expired while resuming after crash point %d" % (cname, n))
            elif r2["rc"] != 0:
                last = [l for l in r2["out"].strip().splitlines() if l.strip()][-1:] or [""]
                err = last[0].split(":")[0][:60]
                chk.violation("resume-exit-nonzero:crash-site=%s" % site,
                              "%s: killed %s mutation %d (%s); --resume exits %s: %s" % (cname, "after" if aft else "before", n, site, r2["rc"], r2["out"][-300:].replace("\n", " | ")),
                              wit)
            else:
                diffs = tree_diffs(cfg, clean, out)
                # aux/ holds temporary files (kept only for debugging with --keep_tmp); their binary content embeds process-local
                # assignment ids and is not a final output
                diffs = [x for x in diffs if "aux" not in x[0].split(os.sep)]
                for rel, why in diffs[:6]:
                    chk.violation("silent-diff:crash-site=%s:%s" % (site, file_kind(os.path.join(out, rel), out)),
                                  "%s: killed %s mutation %d (%s); --resume exits 0 but %s %s" % (cname, "after" if aft else "before", n, site, rel, why), wit)
            chk.sample({"config": cname, "crash_point": n, "site": site, "resume_exit": r2["rc"] if r2 else None}, limit=5)
            shutil.rmtree(out, ignore_errors=True)
            shutil.rmtree(os.path.join(d, os.path.basename(out).replace("crash", "saves")), ignore_errors=True)
        # source-free failpoints: the process dies at the k-th executed LINE of the repository's own code (any instruction between two
        # a run that is itself a resumed run is killed as well (once per tier, first configuration): right after it has opened .params for
        # rewriting, and right after its first own chromosome lock; the second --resume must still complete with the clean run's outputs
        if cname == conf_names[0]:
            for tag2, cfg2 in (("params", {"crash_path": ".params", "crash_path_k": 1, "crash_after": True}),
                               ("lock", {"crash_path": "_processed", "crash_path_k": 1, "crash_after": True})):
                out2 = os.path.join(d, "twice_" + tag2)
                home2 = os.path.join(d, "home_twice_" + tag2)
                shutil.copytree(os.path.join(d, "home"), home2)
                k1 = runner.run_isoquant(args_for(cfg, d, out2, extra), home2, mon=["crash"],
                                         cfg={"crash_root": out2, "crash_path": "_collected", "crash_path_k": 1, "crash_after": True}, events=os.path.join(d, "ev_twice1_" + tag2))
                if k1["rc"] != 137:
                    chk.inconclusive.append("%s: first kill of the kill-resume-kill-resume scenario not reached (exit %s)" % (cname, k1["rc"]))
                    continue
                k2 = runner.run_isoquant(["--resume", "-o", out2], home2, mon=["crash"], cfg=dict(cfg2, crash_root=out2), events=os.path.join(d, "ev_twice2_" + tag2))
                if k2["rc"] != 137:
                    chk.inconclusive.append("%s: the resumed run was not killed at its %s (exit %s)" % (cname, tag2, k2["rc"]))
                    continue
                k3 = runner.run_isoquant(["--resume", "-o", out2], home2, timeout=300)
                chk.note()
                chk.count("resumed_runs_killed_and_resumed_again")
                wit2 = {"config": cname, "scenario": "kill, resume, kill the resumed run after " + tag2 + ", resume"}
                if k3["rc"] is None:
                    chk.inconclusive.append("%s: watchdog expired in the second resume" % cname)
                elif k3["rc"] != 0:
                    last = [l for l in k3["out"].strip().splitlines() if l.strip()][-1:] or [""]
                    chk.violation("resume-exit-nonzero:resumed-run-killed:" + tag2, "%s: killed after the first chromosome was collected, resumed, the RESUMED run killed right after it "
                                  "opened %s, resumed again: exit %s: %s" % (cname, ".params for rewriting" if tag2 == "params" else "its first _processed lock", k3["rc"], last[0][:200]), wit2)
                else:
                    for rel, why in [x for x in tree_diffs(cfg, clean, out2) if "aux" not in x[0].split(os.sep)][:4]:
                        chk.violation("silent-diff:resumed-run-killed:" + tag2, "%s: second resume exits 0 but %s %s" % (cname, rel, why), wit2)
                shutil.rmtree(out2, ignore_errors=True)
        # file-system mutations, e.g. between a write and the flush that makes it durable); k is drawn uniformly after .params was written
        n_line = int(os.environ.get("VERIF_C07_NLINE", 0)) or (90 if thorough else (18 if cname in conf_names[:2] else 0))
        if n_line:
            def prepared(tag):
                out = os.path.join(d, "line_" + tag)
                home = os.path.join(d, "home_line_" + tag)
                if cfg.get("fresh_home"):
                    os.makedirs(home)
                else:
                    shutil.copytree(os.path.join(d, "home"), home)
                if stale:
                    shutil.copytree(stale, out)
                sv = None
                if saves_src:
                    sv = os.path.join(d, "saves_line_" + tag)
                    shutil.copytree(saves_src, sv)
                return out, home, sv
            out, home, sv = prepared("count")
            evl = os.path.join(d, "ev_linecount")
            rc_ = runner.run_isoquant(args_for(cfg, d, out, extra, saves=sv), home, mon=["crash"], cfg={"crash_root": out, "crash_lines": True}, events=evl, timeout=900, cwd=d if cfg.get("relative") else None)
            evs = runner.load_events(evl)
            total = max([e["n"] for e in evs if e["k"] == "line_total"] or [0])
            # in scope: after .params is COMPLETE, i.e. from the first file-system mutation that follows the opening of .params
            lmuts = sorted([e for e in evs if e["k"] == "mut" and e.get("n") is not None], key=lambda e: e["n"])
            pi = max([i for i, e in enumerate(lmuts) if e["path"].endswith((".params", ".params.tmp"))] or [-1])
            at_params = (lmuts[pi + 1].get("line_n") or 0) if 0 <= pi < len(lmuts) - 1 else 0
            shutil.rmtree(out, ignore_errors=True)
            if rc_["rc"] != 0 or total <= at_params + 100:
                chk.inconclusive.append("%s: line-counting run did not finish (exit %s, %d lines)" % (cname, rc_["rc"], total))
            else:
                lrng = random.Random(chk.seed * 1009 + len(cname))
                # stratified: the first and the last line event of functions of the orchestration layer (dataset_processor.py, file_utils.py,
                # isoquant.py, read_groups.py, ...: where stages begin and end, files are merged, locks written), the rest uniformly at random
                fns = [f for e in evs if e["k"] == "line_total" for f in e.get("functions", [])]
                edge = set()
                for base, name, first, last, cnt in fns:
                    for k in (first, last, last - 1):
                        if at_params < k < total:
                            edge.add(k)
                edge = sorted(edge)
                lrng.shuffle(edge)
                lpoints = sorted(set(edge[:(2 * n_line) // 3] + lrng.sample(range(at_params + 1, total), n_line - min(len(edge), (2 * n_line) // 3))))
                per_conf[cname]["line_failpoint_candidates_at_function_edges"] = len(edge)

                def one_line(k):
                    out, home, sv = prepared(str(k))
                    r1 = runner.run_isoquant(args_for(cfg, d, out, extra, saves=sv), home, mon=["crash"],
                                             cfg={"crash_root": out, "crash_lines": True, "crash_line_at": k}, events=os.path.join(d, "evl%d" % k), timeout=900,
                                             cwd=d if cfg.get("relative") else None)
                    r2 = None
                    site = "?"
                    if r1["rc"] == 137:
                        cr = [e for e in runner.load_events(os.path.join(d, "evl%d" % k)) if e["k"] == "crash"]
                        site = cr[-1]["fn"] if cr else "?"
                        r2 = runner.run_isoquant(["--resume", "-o", out] + (["--threads", "3"] if k % 2 else []), home, timeout=300)
                    return k, out, site, r1, r2
                for k, out, site, r1, r2 in runner.parallel(one_line, lpoints, workers=12):
                    chk.note()
                    if r1["rc"] != 137:
                        chk.inconclusive.append("%s: line failpoint %d not reached (exit %s)" % (cname, k, r1["rc"]))
                        continue
                    chk.count("line_failpoints_executed")
                    chk.nontrivial.add("line:" + site)
                    wit = {"config": cname, "line_failpoint": k, "of_lines": total, "function": site, "options": extra}
                    if r2["rc"] is None:
                        chk.inconclusive.append("%s: watchdog expired while resuming after line failpoint %d" % (cname, k))
                    elif r2["rc"] != 0:
                        chk.violation("resume-exit-nonzero:killed-inside=%s" % site, "%s: killed at line event %d of %d (in %s); --resume exits %s: %s" %
                                      (cname, k, total, site, r2["rc"], r2["out"][-300:].replace("\n", " | ")), wit)
                    else:
                        diffs = [x for x in tree_diffs(cfg, clean, out) if "aux" not in x[0].split(os.sep)]
                        for rel, why in diffs[:6]:
                            chk.violation("silent-diff:killed-inside=%s:%s" % (site, file_kind(os.path.join(out, rel), out)),
                                          "%s: killed at line event %d of %d (in %s); --resume exits 0 but %s %s" % (cname, k, total, site, rel, why), wit)
                    shutil.rmtree(out, ignore_errors=True)
                    shutil.rmtree(os.path.join(d, "saves_line_%d" % k), ignore_errors=True)
                    shutil.rmtree(os.path.join(d, "home_line_%d" % k), ignore_errors=True)
                per_conf[cname]["line_failpoints"] = {"lines_in_scope": total - at_params, "executed": len(lpoints)}
        if chk.violations and not getattr(chk, "witness_files", None):
            chk.witness_files = [os.path.join(d, f) for f in ("g.fa", "a.gtf", "r.bam", "r.bam.bai", "groups.tsv") if os.path.exists(os.path.join(d, f))]
    # multi-process kills: -t 4, the whole process group is SIGKILLed when some worker performs its k-th mutation
    mp_done = 0
    if thorough or True:
        cname = "multi-chrom-groups-exons"
        cfg = CONFIGS[cname]
        d = os.path.join(scratch, cname + "-mp")
        extra = make_inputs(cfg, d, chk.seed * 7 + len(cname))

        def mp_args(out):
            a = args_for(cfg, d, out, extra)
            a[a.index("-t") + 1] = "4"
            return a
        clean = os.path.join(d, "clean")
        r = runner.run_isoquant(mp_args(clean), os.path.join(d, "home"))
        if r["rc"] == 0:
            ks = list(range(1, 45))
            rng.shuffle(ks)
            ks = ks[:(40 if thorough else 6)]

            def one_mp(k):
                out = os.path.join(d, "mp%d" % k)
                home = os.path.join(d, "homemp%d" % k)
                shutil.copytree(os.path.join(d, "home"), home)
                r1 = runner.run_isoquant(mp_args(out), home, mon=["crash"], cfg={"crash_root": out, "crash_worker_at": k},
                                         events=os.path.join(d, "evmp%d" % k), new_session=True)
                r2 = None
                if r1["rc"] is not None and r1["rc"] != 0:
                    r2 = runner.run_isoquant(["--resume", "-o", out] + (["--threads", "1"] if k % 2 else []), home, timeout=300)
                return k, out, r1, r2
            for k, out, r1, r2 in runner.parallel(one_mp, ks, workers=4):
                if r1["rc"] == 0:
                    continue     # no worker reached its k-th mutation: nothing was killed
                if r1["rc"] is None or r2["rc"] is None:
                    chk.inconclusive.append("watchdog expired in multi-process kill %d" % k)
                    continue
                chk.note()
                mp_done += 1
                evs = [e for e in runner.load_events(os.path.join(d, "evmp%d" % k)) if e["k"] == "crash"]
                site = site_of(evs[0], out) if evs else "unknown"
                chk.nontrivial.add("mp:" + site)
                wit = {"config": cname + " -t 4", "worker_mutation": k, "site": site}
                if r2["rc"] != 0:
                    chk.violation("resume-exit-nonzero:multiprocess:crash-site=%s" % site,
                                  "-t 4 run killed (SIGKILL to the process group) at a worker's mutation %d (%s); --resume exits %s: %s" %
                                  (k, site, r2["rc"], r2["out"][-300:].replace("\n", " | ")), wit)
                else:
                    for rel, why in [x for x in runner.compare_trees(os.path.join(clean, pipeline.PREFIX), os.path.join(out, pipeline.PREFIX))
                                     if not x[0].startswith("aux")][:6]:
                        chk.violation("silent-diff:multiprocess:crash-site=%s:%s" % (site, file_kind(os.path.join(out, rel), out)),
                                      "-t 4 run killed at a worker's mutation %d (%s); --resume exits 0 but %s %s" % (k, site, rel, why), wit)
                shutil.rmtree(out, ignore_errors=True)
    chk.extra["multiprocess_kills_executed"] = mp_done
    chk.extra.update({"crash_points_total_in_scope": total_points, "crash_points_executed": executed,
                      "distinct_call_sites": len(sites_seen), "per_configuration": per_conf,
                      "exhaustive": all(v["exhaustive"] for v in per_conf.values()) if per_conf else False})
    chk.assumptions = ["crash points before .params is written are out of the property's scope",
                       "-t 1: all mutations happen in the main process in a deterministic order; os._exit models a kill (no clean-up handlers run)",
                       "aux/ (temporary files, kept with --keep_tmp for debugging) is not compared: the binary dumps embed process-local assignment ids"]
    chk.inconclusive_if(executed == 0, "no crash point executed")
    chk.min_nontrivial = 10


def _prefix_dir(cfg):
    return pipeline.PREFIX


def tree_diffs(cfg, a, b):
    """differences between the final outputs of two runs: the folder of the experiment, or of every experiment of a multi-experiment run"""
    res = []
    for sub in (cfg.get("experiments") or [pipeline.PREFIX]):
        res += [(os.path.join(sub, rel), why) for rel, why in runner.compare_trees(os.path.join(a, sub), os.path.join(b, sub))]
    return res
