"""C19 — interval and profile primitives return the set-theoretic result.

Monitor: icontract post-conditions (vlib/contracts19.py) on the real functions.
Workload: (a) exhaustive over all sorted disjoint interval lists (and pairs) over a bounded universe,
(b) random large instances, (c) the repository's own test-suite executed with the contracts switched on.
"""
import copy
import itertools
import os
import random
import signal
import subprocess
import sys
from concurrent.futures import ProcessPoolExecutor
from functools import partial

from vlib import runner as _runner_mod
runner = _runner_mod

LEVEL = "exploration"


def all_intervals(n, lo=1):
    return [(a, b) for a in range(lo, lo + n) for b in range(a, lo + n)]


def all_lists(n, lo=1, max_len=None):
    """all sorted, pairwise disjoint (touching allowed) non-empty interval lists inside [lo, lo+n-1]"""
    res = []

    def rec(start, cur):
        if cur:
            res.append(tuple(cur))
        if max_len and len(cur) >= max_len:
            return
        for a in range(start, lo + n):
            for b in range(a, lo + n):
                cur.append((a, b))
                rec(b + 1, cur)
                cur.pop()
    rec(lo, [])
    return res


def shape(lst):
    s = set()
    if len(lst) >= 2:
        s.add("multi")
        if any(lst[i][1] + 1 == lst[i + 1][0] for i in range(len(lst) - 1)):
            s.add("touching")
    if any(a == b for a, b in lst):
        s.add("unit")
    return s


class Timeout(Exception):
    pass


def _alarm(signum, frame):
    raise Timeout()


def _plain_data(x):
    if isinstance(x, (int, float, str, bool, type(None))):
        return True
    if isinstance(x, (list, tuple)):
        return all(_plain_data(y) for y in x)
    return False


def _call(res, name, f, *args):
    """call a contracted function; record exceptions/time-outs as violations"""
    from vlib import contracts19 as C
    res["calls"] += 1
    # CPU time of this process, not wall-clock time: a loaded machine must not turn into a verdict
    signal.setitimer(signal.ITIMER_VIRTUAL, 6.0)
    plain = all(_plain_data(a) for a in args)
    before = copy.deepcopy(args) if plain else None
    try:
        r = f(*args)
        # the primitives are functions of their arguments: the caller's lists are left as they were (judged for arguments made of numbers,
        # strings, lists and tuples only)
        if plain and args != before:
            res["viol"].append((name + ":argument-modified", repr(before)[:300], "arguments after the call: %s" % repr(args)[:300]))
        return r
    except C.PostBroken:
        v = C.VIOLATIONS[-1] if C.VIOLATIONS else (name, repr(args), "?")
        res["viol"].append((name + ":wrong-result", v[1], v[2]))
    except Timeout:
        res["viol"].append((name + ":no-termination", repr(args)[:300], "more than 6 s of CPU time"))
    except AssertionError as e:
        res["viol"].append((name + ":assertion", repr(args)[:300], repr(e)))
    except Exception as e:
        res["viol"].append((name + ":exception", repr(args)[:300], repr(e)))
    finally:
        signal.setitimer(signal.ITIMER_VIRTUAL, 0)
    return None


def _worker(job):
    from vlib import repo_import, contracts19 as C
    C.install()
    common = repo_import.mod("src.common")
    gi = repo_import.mod("src.gene_info")
    lrp = repo_import.mod("src.long_read_profiles")
    signal.signal(signal.SIGVTALRM, _alarm)
    kind, payload = job
    res = {"calls": 0, "viol": [], "nontrivial": 0, "shapes": {}, "cases": 0, "samples": []}

    def note_shape(*lists):
        sh = set()
        for l in lists:
            sh |= shape(l)
        if any(len(l) >= 2 for l in lists):
            res["nontrivial"] += 1
        k = "+".join(sorted(sh)) or "single"
        res["shapes"][k] = res["shapes"].get(k, 0) + 1

    if kind == "pairs":
        n = payload
        iv = all_intervals(n)
        for r1 in iv:
            for r2 in iv:
                res["cases"] += 1
                for nm in ("overlaps", "contains", "intersection_len", "overlap_intervals", "left_of", "max_range"):
                    _call(res, nm, getattr(common, nm), r1, r2)
                for d in (0, 1, 2, 3):
                    for nm in ("equal_ranges", "contains_approx", "contains_well_inside"):
                        _call(res, nm, getattr(common, nm), r1, r2, d)
                for d in (0, 1, 2, 3, 5, 8):
                    # at least d shared positions, or one range inside the other
                    _call(res, "overlaps_at_least", common.overlaps_at_least, r1, r2, d)
                    if not (r1[1] < r2[0] or r2[1] < r1[0]):
                        # the variant for ranges already known to overlap must agree with it there
                        got = common.overlaps_at_least_when_overlap(r1, r2, d)
                        s1, s2 = set(range(r1[0], r1[1] + 1)), set(range(r2[0], r2[1] + 1))
                        exp = len(s1 & s2) >= d or s1 <= s2 or s2 <= s1
                        C._rec("overlaps_at_least_when_overlap", got == exp, (r1, r2, d), got)
                        if got != exp:
                            res["viol"].append(("overlaps_at_least_when_overlap:wrong-result", repr((r1, r2, d)), "%s expected %s" % (got, exp)))
            _call(res, "interval_len", common.interval_len, r1)
    elif kind == "single":
        lists, n = payload
        for l in lists:
            l = list(l)
            res["cases"] += 1
            note_shape(l)
            _call(res, "intervals_total_length", common.intervals_total_length, l)
            _call(res, "junctions_from_blocks", common.junctions_from_blocks, l)
            for pos in range(0, n + 3):
                _call(res, "sum_intervals_to_point", common.sum_intervals_to_point, l, pos)
                _call(res, "sum_intervals_from_point", common.sum_intervals_from_point, l, pos)
                _call(res, "interval_bin_search", common.interval_bin_search, l, pos)
                _call(res, "interval_bin_search_rev", common.interval_bin_search_rev, l, pos)
            region = (1, n)
            for reg in ((0, n + 1), (l[0][0], l[-1][1]), (2, n - 1)):
                _call(res, "extra_exon_percentage", common.extra_exon_percentage, reg, l)
            # get_exons: l as introns strictly inside a region, non-touching introns only
            if all(l[i][1] + 1 < l[i + 1][0] for i in range(len(l) - 1)):
                _call(res, "get_exons", common.get_exons, (l[0][0] - 1, l[-1][1] + 1), l)
                _call(res, "get_exons", common.get_exons, (l[0][0] - 3, l[-1][1] + 2), l)
            # truncate at positions inside exons
            cover = sorted(C.U(l))
            for pa in [-1] + cover:
                for pt in [-1] + cover:
                    if pa != -1 and pt != -1 and pt > pa:
                        continue
                    _call(res, "truncate_read_to_polya", common.truncate_read_to_polya, l, pa, pt)
            if len(res["samples"]) < 2 and len(l) >= 3:
                res["samples"].append({"list": l})
    elif kind == "listpairs":
        lists_a, lists_b = payload
        for a in lists_a:
            a = list(a)
            for b in lists_b:
                b = list(b)
                res["cases"] += 1
                note_shape(a, b)
                _call(res, "jaccard_similarity", common.jaccard_similarity, a, b)
                _call(res, "merge_ranges", common.merge_ranges, a, b)
                _call(res, "read_coverage_fraction", common.read_coverage_fraction, a, b)
    elif kind == "split":
        # arbitrary sets of distinct exons (sorted), up to k exons over universe n
        n, k, part, nparts = payload
        iv = all_intervals(n)
        idx = 0
        for m in range(1, k + 1):
            for combo in itertools.combinations(iv, m):
                idx += 1
                if idx % nparts != part:
                    continue
                res["cases"] += 1
                ex = sorted(combo)
                if m >= 2:
                    res["nontrivial"] += 1
                _call(res, "split_exons", gi.GeneInfo.split_exons, ex)
                key = "exons=%d" % m
                res["shapes"][key] = res["shapes"].get(key, 0) + 1
    elif kind == "isoprofiles":
        # FeatureProfiles.set_profiles over pairs of transcripts
        n, part, nparts = payload
        tlists = [l for l in all_lists(n) if all(l[i][1] + 1 < l[i + 1][0] for i in range(len(l) - 1))]
        idx = 0
        for t1 in tlists:
            for t2 in tlists:
                idx += 1
                if idx % nparts != part:
                    continue
                res["cases"] += 1
                exons = sorted(set(t1) | set(t2))
                introns = sorted(set(C.runs(set(range(t1[0][0], t1[-1][1] + 1)) - C.U(t1))) |
                                 set(C.runs(set(range(t2[0][0], t2[-1][1] + 1)) - C.U(t2))))
                try:
                    split = gi.GeneInfo.split_exons(exons)
                except Exception:
                    split = None   # reported by the split job
                for tid, t in (("a", t1), ("b", t2)):
                    region = (t[0][0], t[-1][1])
                    t_introns = C.runs(set(range(t[0][0], t[-1][1] + 1)) - C.U(t))
                    for feats, tf, mode, comp in ((exons, list(t), "equal", partial(common.equal_ranges, delta=0)),
                                                  (introns, t_introns, "equal", partial(common.equal_ranges, delta=0)),
                                                  (split, list(t), "contains", common.contains)):
                        if feats is None or (mode == "contains" and any(s > e for s, e in feats)):
                            continue
                        fp = gi.FeatureProfiles()
                        fp.set_features(list(feats))
                        r = _call(res, "set_profiles", fp.set_profiles, tid, tf, region, comp)
                        if tid in fp.profiles:
                            if not C.check_set_profiles(fp, tid, tf, region, mode):
                                v = C.VIOLATIONS[-1]
                                res["viol"].append(("FeatureProfiles.set_profiles:wrong-result", v[1], v[2]))
                # the gene objects built from transcript models (used when reads are assigned to constructed models): whatever matching
                # tolerance the object carries, an isoform profile marks exactly the features the isoform contains
                for delta in (0, 2, 6):
                    models = [gi.TranscriptModel("c", "+", tid, "g", list(t), gi.TranscriptModelType.known) for tid, t in (("a", t1), ("b", t2))]
                    for ctor, arg in (("from_models", models), ("from_model", models[0])):
                        g = _call(res, "GeneInfo." + ctor, getattr(gi.GeneInfo, ctor), arg, delta)
                        if g is None:
                            continue
                        for tid, t in (("a", t1), ("b", t2)):
                            if tid not in g.intron_profiles.profiles:
                                continue
                            region = (t[0][0], t[-1][1])
                            t_introns = C.runs(set(range(t[0][0], t[-1][1] + 1)) - C.U(t))
                            for fp, tf, mode in ((g.exon_profiles, list(t), "equal"), (g.intron_profiles, t_introns, "equal"),
                                                 (g.split_exon_profiles, list(t), "contains")):
                                if mode == "contains" and any(s_ > e_ for s_, e_ in fp.features):
                                    continue       # malformed split blocks are reported by the split job
                                res["model_gene_profiles"] = res.get("model_gene_profiles", 0) + 1
                                if not C.check_set_profiles(fp, tid, tf, region, mode):
                                    v = C.VIOLATIONS[-1]
                                    res["viol"].append(("GeneInfo.%s:isoform-profile-wrong" % ctor, v[1] + " delta=%d" % delta, v[2]))
                if len(t1) >= 2 or len(t2) >= 2:
                    res["nontrivial"] += 1
    elif kind == "readprofiles":
        n, part, nparts = payload
        if part == 0:
            # known introns that lie within delta of EACH OTHER (alternative sites a few bases apart), reads at and around them
            for delta in (1, 2, 3):
                for ds in range(-3, 4):
                    for de in range(-3, 4):
                        if (ds, de) == (0, 0):
                            continue
                        for third in (None, (34, 44)):
                            known = sorted(set([(10, 21), (10 + ds, 21 + de)] + ([third] if third else [])))
                            for rs in range(-3, 4):
                                for re_ in range(-3, 4):
                                    for second in (None, (34, 44), (35, 44)):
                                        r_introns = [(10 + rs, 21 + re_)] + ([second] if second else [])
                                        blocks = [(1, r_introns[0][0] - 1)]
                                        for i_, ri in enumerate(r_introns):
                                            nxt = r_introns[i_ + 1][0] - 1 if i_ + 1 < len(r_introns) else ri[1] + 9
                                            blocks.append((ri[1] + 1, nxt))
                                        if not all(sum(1 for r in r_introns if abs(f[0] - r[0]) <= delta and abs(f[1] - r[1]) <= delta) <= 1 for f in known):
                                            continue
                                        res["cases"] += 1
                                        pc = lrp.OverlappingFeaturesProfileConstructor(known, (1, 60), comparator=partial(common.equal_ranges, delta=delta),
                                                                                       delta=delta)
                                        mp = _call(res, "construct_intron_profile", pc.construct_intron_profile, blocks)
                                        if mp is not None:
                                            exp = C.expected_overlapping_profile(known, r_introns, (blocks[0][0], blocks[-1][1]), delta)
                                            ok = C.profile_agrees(mp.gene_profile, exp)
                                            C._rec("construct_intron_profile", ok, (known, blocks, delta), mp.gene_profile)
                                            res["twin_cases"] = res.get("twin_cases", 0) + 1
                                            if not ok:
                                                res["viol"].append(("construct_intron_profile:wrong-result",
                                                                    repr((known, blocks, delta)), "%s expected %s" % (mp.gene_profile, exp)))
        tlists = [l for l in all_lists(n) if all(l[i][1] + 1 < l[i + 1][0] for i in range(len(l) - 1))]
        idx = 0
        for known_t in tlists:           # known transcript (features = its exons / introns / split blocks)
            k_exons = list(known_t)
            k_introns = C.runs(set(range(known_t[0][0], known_t[-1][1] + 1)) - C.U(known_t))
            # ONE constructor per (feature kind, delta) profiles all reads of this transcript, as in the pipeline (one constructor per gene);
            # every returned profile is looked at again after the last read (a later call must not change an earlier result)
            pcs = {}
            returned = []
            for read in tlists:
                idx += 1
                if idx % nparts != part:
                    continue
                res["cases"] += 1
                blocks = list(read)
                gene_region = (known_t[0][0], known_t[-1][1])
                for delta in (0, 1):
                    # with delta > 0 features must be longer than delta on every side, otherwise two features can be
                    # "equal within delta" without sharing a base (outside the property: a disjoint feature is no match)
                    if delta and (any(b - a + 1 < 2 for a, b in k_exons + k_introns + blocks) or
                                  any(b - a + 1 < 2 for a, b in C.runs(set(range(read[0][0], read[-1][1] + 1)) - C.U(read)))):
                        continue
                    # introns
                    if k_introns:
                        # precondition: each read feature within delta of at most one known feature
                        r_introns = C.runs(set(range(read[0][0], read[-1][1] + 1)) - C.U(read))
                        if all(sum(1 for r in r_introns if abs(f[0] - r[0]) <= delta and abs(f[1] - r[1]) <= delta) <= 1
                               for f in k_introns):
                            if ("i", delta) not in pcs:
                                pcs[("i", delta)] = lrp.OverlappingFeaturesProfileConstructor(k_introns, gene_region,
                                                                                              comparator=partial(common.equal_ranges, delta=delta),
                                                                                              delta=delta)
                            pc = pcs[("i", delta)]
                            mp = _call(res, "construct_intron_profile", pc.construct_intron_profile, blocks)
                            if mp is not None:
                                returned.append(("construct_intron_profile", mp, list(mp.gene_profile), list(mp.read_profile), blocks))
                                exp = C.expected_overlapping_profile(k_introns, r_introns, (read[0][0], read[-1][1]), delta)
                                C._rec("construct_intron_profile", C.profile_agrees(mp.gene_profile, exp), (k_introns, blocks, delta), mp.gene_profile)
                                if not C.profile_agrees(mp.gene_profile, exp):
                                    res["viol"].append(("construct_intron_profile:wrong-result",
                                                        repr((k_introns, blocks, delta)), "%s expected %s" % (mp.gene_profile, exp)))
                            # tails: a known feature lying ENTIRELY beyond polyA + delta / ENTIRELY before polyT - delta is outside the molecule (-2),
                            # every other feature keeps the mark it has without tails (a feature the read spans without matching stays absent)
                            if mp is not None:
                                for pa, pt in ((blocks[-1][1], -1), (-1, blocks[0][0]), (blocks[-1][1], blocks[0][0]), (blocks[-1][1] - 2, blocks[0][0] + 2)):
                                    for nm, feats, fn in (("construct_intron_profile", k_introns, pc.construct_intron_profile),):
                                        mt = _call(res, nm + "[tails]", fn, blocks, pa, pt)
                                        if mt is None:
                                            continue
                                        exp_t = [-2 if ((pa != -1 and f[0] > pa + delta) or (pt != -1 and f[1] < pt - delta)) else mp.gene_profile[i_]
                                                 for i_, f in enumerate(feats)]
                                        nz = [i_ for i_, v in enumerate(exp_t) if v != 0]
                                        rng_ = (nz[0], nz[-1] + 1) if nz else (len(exp_t), 0)
                                        ok = list(mt.gene_profile) == exp_t and list(mt.read_profile) == list(mp.read_profile) and \
                                            (tuple(mt.gene_profile_range) == rng_ or not nz)
                                        C._rec(nm + "[tails]", ok, (feats, blocks, delta, pa, pt), mt.gene_profile)
                                        res["tail_cases"] = res.get("tail_cases", 0) + 1
                                        if not ok:
                                            res["viol"].append((nm + ":tails:wrong-result", repr((feats, blocks, delta, "polyA", pa, "polyT", pt)),
                                                                "%s range %s expected %s range %s (without tails: %s)" %
                                                                (mt.gene_profile, mt.gene_profile_range, exp_t, rng_, mp.gene_profile)))
                    # exons (used for --count_exons)
                    if all(sum(1 for r in blocks if abs(f[0] - r[0]) <= delta and abs(f[1] - r[1]) <= delta) <= 1 for f in k_exons):
                        if ("e", delta) not in pcs:
                            pcs[("e", delta)] = lrp.OverlappingFeaturesProfileConstructor(k_exons, gene_region,
                                                                                          comparator=partial(common.equal_ranges, delta=delta),
                                                                                          delta=delta)
                        pc = pcs[("e", delta)]
                        mp = _call(res, "construct_exon_profile", pc.construct_exon_profile, blocks)
                        if mp is not None:
                            returned.append(("construct_exon_profile", mp, list(mp.gene_profile), list(mp.read_profile), blocks))
                            mr = (blocks[0][1] + delta, blocks[-1][0] - delta)
                            exp = C.expected_overlapping_profile(k_exons, blocks, mr, delta)
                            C._rec("construct_exon_profile", C.profile_agrees(mp.gene_profile, exp), (k_exons, blocks, delta), mp.gene_profile)
                            if not C.profile_agrees(mp.gene_profile, exp):
                                res["viol"].append(("construct_exon_profile:wrong-result",
                                                    repr((k_exons, blocks, delta)), "%s expected %s" % (mp.gene_profile, exp)))
                # split-exon profile (default comparator: overlaps)
                if "s" not in pcs:
                    pcs["s"] = lrp.NonOverlappingFeaturesProfileConstructor(k_exons)
                pc = pcs["s"]
                mp = _call(res, "construct_profile", pc.construct_profile, blocks)
                if mp is not None:
                    returned.append(("NonOverlapping.construct_profile", mp, list(mp.gene_profile), list(mp.read_profile), blocks))
                    exp = C.expected_nonoverlapping_profile(k_exons, blocks)
                    C._rec("construct_profile", mp.gene_profile == exp, (k_exons, blocks), mp.gene_profile)
                    if mp.gene_profile != exp:
                        res["viol"].append(("NonOverlapping.construct_profile:wrong-result",
                                            repr((k_exons, blocks)), "%s expected %s" % (mp.gene_profile, exp)))
                if len(known_t) >= 2 and len(read) >= 2:
                    res["nontrivial"] += 1
            for nm, mp, gp, rp, blocks in returned:
                res["profiles_looked_at_again"] = res.get("profiles_looked_at_again", 0) + 1
                if list(mp.gene_profile) != gp or list(mp.read_profile) != rp:
                    res["viol"].append((nm + ":earlier-result-changed-by-a-later-call", repr((known_t, blocks)),
                                        "profile %s / %s when returned, %s / %s after the other reads of the transcript were profiled" %
                                        (gp, rp, list(mp.gene_profile), list(mp.read_profile))))
                    break
    elif kind == "splitprofiles":
        # NonOverlappingFeaturesProfileConstructor with the comparator the pipeline gives it (overlaps_at_least_when_overlap, minimal overlap md):
        # features = disjoint segments (touching allowed, as produced by split_exons), reads = gapless blocks
        n, part, nparts = payload
        feats = all_lists(n)
        reads = [l for l in feats if all(l[i][1] + 1 < l[i + 1][0] for i in range(len(l) - 1))]
        idx = 0
        for segs in feats:
            for read in reads:
                idx += 1
                if idx % nparts != part:
                    continue
                res["cases"] += 1
                if len(segs) >= 2 and len(read) >= 2:
                    res["nontrivial"] += 1
                for md in (1, 2, 3, 5):
                    pc = lrp.NonOverlappingFeaturesProfileConstructor(list(segs), comparator=partial(common.overlaps_at_least_when_overlap, delta=md))
                    mp = _call(res, "construct_profile", pc.construct_profile, list(read))
                    if mp is None:
                        continue
                    res["split_profile_cases"] = res.get("split_profile_cases", 0) + 1
                    bad = None
                    for i, sg in enumerate(segs):
                        inside = any(b[0] <= sg[0] and sg[1] <= b[1] for b in read)
                        ov = max([min(sg[1], b[1]) - max(sg[0], b[0]) + 1 for b in read] + [0])
                        v = mp.gene_profile[i]
                        if inside and v != 1:
                            bad = "segment %s lies inside a read block but is marked %d" % (sg, v)
                        elif ov >= md and v != 1:
                            bad = "segment %s shares %d >= %d bases with a read block but is marked %d" % (sg, ov, md, v)
                        elif v == 1 and ov == 0:
                            bad = "segment %s is marked present but shares no base with the read" % (sg,)
                    for j, b in enumerate(read):
                        if any(b[0] <= sg[0] and sg[1] <= b[1] for sg in segs) and mp.read_profile[j] != 1:
                            bad = "read block %s contains a whole segment but is marked %d" % (b, mp.read_profile[j])
                    C._rec("construct_profile", bad is None, (segs, read, md), mp.gene_profile)
                    if bad:
                        res["viol"].append(("NonOverlapping.construct_profile:pipeline-comparator", repr((segs, read, md)), "%s; gene profile %s read profile %s" % (bad, mp.gene_profile, mp.read_profile)))
    elif kind == "options":
        # the profile constructors as the PIPELINE builds them: parameters derived by the tree's own option handling from a command line with
        # an explicit --delta (0 is a legal value) or a preset; a read intron d bp away from the known one is marked present iff d <= delta
        d, home = payload
        from vlib import repo_import as ri
        base = ["-o", os.path.join(d, "opt_out"), "-d", "nanopore", "--bam", os.path.join(d, "r.bam"), "-r", os.path.join(d, "g.fa"), "-g", os.path.join(d, "a.gtf"),
                "--complete_genedb", "-t", "1", "-p", "SMP", "--force"]
        preset_delta = {"exact": 0, "precise": 4, "default": 6, "loose": 12}
        for preset in ("exact", "precise", "default", "loose"):
            for explicit in (None, 0, 1, 3, 7):
                argv = base + ["--matching_strategy", preset] + (["--delta", str(explicit)] if explicit is not None else [])
                try:
                    import contextlib
                    import logging
                    logging.disable(logging.CRITICAL)
                    with open(os.devnull, "w") as dn, contextlib.redirect_stdout(dn), contextlib.redirect_stderr(dn):
                        args = ri.fresh_args(argv, home)
                    logging.disable(logging.NOTSET)
                except BaseException as e:
                    res["viol"].append(("options:exception", repr(argv[-4:]), repr(e)[:200]))
                    continue
                want = preset_delta[preset] if explicit is None else explicit
                model = gi.TranscriptModel("c", "+", "t", "g", [(100, 200), (301, 400), (501, 600)], gi.TranscriptModelType.known)
                g = gi.GeneInfo.from_model(model, args.delta)
                cpc = lrp.CombinedProfileConstructor(g, args)
                for shift in range(0, 15):
                    res["cases"] += 1
                    res["option_profile_cases"] = res.get("option_profile_cases", 0) + 1
                    blocks = [(100, 200 + shift), (301, 400), (501, 600)]       # first read intron (201+shift, 300): one end moved by `shift`
                    mp = cpc.intron_profile_constructor.construct_intron_profile(blocks)
                    present = mp.gene_profile[0] == 1
                    if present != (shift <= want):
                        res["viol"].append(("options:profile-ignores-requested-delta", "preset=%s --delta %s shift=%d" % (preset, explicit, shift),
                                            "intron marked %s, requested tolerance %d (args.delta=%r)" % (mp.gene_profile[0], want, args.delta)))
                        break
    elif kind == "random":
        seed, count = payload
        rng = random.Random(seed)

        def rlist():
            k = rng.randint(1, 60)
            pos = rng.randint(1, 1000)
            out = []
            for _ in range(k):
                a = pos + rng.choice((0, 0, 1, 5, 200, 3000))
                b = a + rng.choice((0, 1, 10, 150, 2500))
                out.append((a, b))
                pos = b + 1
            return out
        for _ in range(count):
            a, b = rlist(), rlist()
            res["cases"] += 1
            res["nontrivial"] += 1
            _call(res, "jaccard_similarity", common.jaccard_similarity, a, b)
            _call(res, "merge_ranges", common.merge_ranges, a, b)
            _call(res, "read_coverage_fraction", common.read_coverage_fraction, a, b)
            _call(res, "split_exons", gi.GeneInfo.split_exons, sorted(set(a + b)))
            for _ in range(6):
                pos = rng.randint(a[0][0] - 2, a[-1][1] + 2)
                _call(res, "interval_bin_search", common.interval_bin_search, a, pos)
                _call(res, "interval_bin_search_rev", common.interval_bin_search_rev, a, pos)
                _call(res, "sum_intervals_to_point", common.sum_intervals_to_point, a, pos)
                _call(res, "sum_intervals_from_point", common.sum_intervals_from_point, a, pos)
    res["counts"] = dict(C.COUNTS)
    return res


def run_repo_tests_with_contracts(chk):
    """(b) the repository's own tests with the contracts on (separate process, pytest plugin)."""
    from vlib import runner
    env = dict(os.environ)
    out = os.path.join(chk.scratch, "contract_pytest.json")
    env["VERIF_CONTRACT_OUT"] = out
    env["PYTHONPATH"] = runner.VERIF + os.pathsep + os.path.join(runner.VERIF, ".deps") + os.pathsep + runner.REPO
    p = subprocess.run([runner.PY, "-m", "pytest", "-q", "-p", "no:cacheprovider", "-p", "vlib.contract_plugin",
                        "--timeout=600", "tests/test_common.py", "tests/test_gene_info.py", "tests/test_long_read_profile.py",
                        "tests/test_long_read_assigner.py", "tests/test_alignment_info.py"],
                       cwd=runner.REPO, env=env, stdout=subprocess.PIPE, stderr=subprocess.STDOUT, timeout=900)
    import json
    if not os.path.exists(out):
        return None, p.stdout.decode()[-2000:]
    return json.load(open(out)), p.stdout.decode()[-500:]


def run(chk, scratch):
    thorough = chk.tier == "thorough"
    n_single = 9 if thorough else 8
    n_pair = 7 if thorough else 6
    n_split, k_split = (7, 4) if thorough else (6, 4)
    n_prof = 8 if thorough else 7
    chk.rule = ("exhaustive: all interval pairs over universe %d; all sorted disjoint (touching allowed) interval lists over universe %d "
                "(x every position) ; all pairs of such lists over universe %d; all sets of <=%d distinct exons over universe %d for split_exons; "
                "all pairs (known transcript, read) of non-touching exon lists over universe %d for isoform/read profiles (delta 0 and 1) (intron profiles also with polyA/polyT positions at and near the read's ends: only features entirely beyond a tail become 'outside'; split-exon profiles also with the comparator the pipeline uses, minimal overlap 1, 2, 3, 5, over touching segments) and for the isoform profiles of the gene objects built from transcript models (GeneInfo.from_models / from_model, delta 0, 2, 6); "
                "plus random large instances and the repository's own tests run with the contracts on. "
                "non-trivial = inputs with >=2 intervals in at least one argument") % (n_single, n_single, n_pair, k_split, n_split, n_prof)
    jobs = [("pairs", n_single)]
    singles = all_lists(n_single)
    for i in range(32):
        jobs.append(("single", (singles[i::32], n_single)))
    pl = all_lists(n_pair)
    for i in range(32):
        jobs.append(("listpairs", (pl[i::32], pl)))
    for i in range(16):
        jobs.append(("split", (n_split, k_split, i, 16)))
    for i in range(24):
        jobs.append(("isoprofiles", (n_prof - 1, i, 24)))
    for i in range(32):
        jobs.append(("readprofiles", (n_prof, i, 32)))
    for i in range(16):
        jobs.append(("splitprofiles", (n_prof, i, 16)))
    # a tiny data set for the option-handling job (the parser checks that its input files exist)
    from vlib import world as _world, pipeline as _pipeline
    od = os.path.join(scratch, "opt")
    ow = _world.standard_world(chk.seed, n_chroms=1, genes_per_chrom=1, hidden=False)
    _world.add_standard_reads(ow, per_transcript=1, jitter=0)
    _pipeline.write_world(ow, od)
    jobs.append(("options", (od, os.path.join(od, "home"))))
    nrand = 100000 if thorough else 4000
    for i in range(16):
        jobs.append(("random", (chk.seed * 101 + i, nrand // 16)))
    counts = {}
    shapes = {}
    nontriv = 0
    with ProcessPoolExecutor(max_workers=16) as ex:
        for job, res in zip(jobs, ex.map(_worker, jobs)):
            chk.note(n=res["cases"])
            nontriv += res["nontrivial"]
            chk.count("model_gene_isoform_profiles_checked", res.get("model_gene_profiles", 0))
            chk.count("intron_profiles_with_tail_positions_checked", res.get("tail_cases", 0))
            chk.count("profiles_looked_at_again_after_later_calls", res.get("profiles_looked_at_again", 0))
            chk.count("split_profiles_with_pipeline_comparator", res.get("split_profile_cases", 0))
            chk.count("profiles_built_from_command_line_options", res.get("option_profile_cases", 0))
            for k, v in res["counts"].items():
                counts[k] = counts.get(k, 0) + v
            for k, v in res["shapes"].items():
                kk = job[0] + ":" + k
                shapes[kk] = shapes.get(kk, 0) + v
            for s in res["samples"]:
                chk.sample(s)
            for name, a, r in res["viol"]:
                chk.violation(name, "%s args=%s result=%s" % (name, a, r), {"function": name, "args": a, "result": r})
    for k in shapes:
        chk.nontrivial.add(k)
    chk.nontrivial_count = nontriv   # enumerated inputs are distinct by construction
    tests, tail = run_repo_tests_with_contracts(chk)
    if tests is None:
        chk.inconclusive.append("repository tests with contracts on did not report: " + tail[-300:])
    else:
        chk.extra["repo_tests_with_contracts"] = {"contract_evaluations": tests["counts"], "violations": len(tests["violations"]),
                                                  "pytest_tail": tail.strip().splitlines()[-1] if tail.strip() else ""}
        for name, a, r in tests["violations"]:
            chk.violation(name + ":under-repo-tests", "contract on %s fired under the repository's own tests: args=%s result=%s" % (name, a, r),
                          {"function": name, "args": a, "result": r})
    # (c) passively inside real pipeline runs: the contracts are switched on in the launcher
    from vlib import pipeline, world2
    pl_counts = {}
    for wi in range(3 if thorough else 0):      # thorough tier only: icontract on the hot primitives slows a run ~20x
        d = os.path.join(scratch, "pl%d" % wi)
        w = world2.rich_world(chk.seed * 7 + wi, n_chroms=2, genes_per_chrom=2 if not thorough else 3, reads_per_t=1 if not thorough else 4, hidden_cov=2, multimappers=thorough)
        pipeline.write_world(w, d)
        ev = os.path.join(d, "ev")
        r = pipeline.run(d, os.path.join(d, "out"), threads=2, extra=["--count_exons"], mon=["c19"], events=ev)
        if r["rc"] is None:
            chk.inconclusive.append("watchdog expired in the pipeline run with contracts on")
            continue
        last = {}
        for e in runner.load_events(ev):
            if e["k"] == "c19":
                last[e["pid"]] = e
        for e in last.values():
            for k, v in e["counts"].items():
                pl_counts[k] = pl_counts.get(k, 0) + v
            for name, a, rr in e["violations"]:
                chk.violation(name + ":in-pipeline", "contract on %s fired inside a pipeline run: args=%s result=%s" % (name, a, rr),
                              {"function": name, "args": a, "result": rr})
        if r["rc"] != 0 and not last:
            chk.violation("pipeline-run-with-contracts-failed", pipeline.fail_text(r), None)
    chk.extra["pipeline_runs_with_contracts"] = pl_counts
    chk.extra.update({"contract_evaluations_per_function": counts, "input_shape_classes": shapes,
                      "nontrivial_inputs": nontriv, "exhaustive": True})
    chk.assumptions = ["oracles = explicit sets of positions (vlib/contracts19.py)",
                       "pre-conditions: lists sorted and pairwise disjoint; read-profile oracle only where each read feature is within delta of at most one known feature",
                       "truncate_read_to_polya judged only for tail positions inside the read's exons"]
    for f in ("overlaps", "jaccard_similarity", "merge_ranges", "interval_bin_search", "interval_bin_search_rev",
              "split_exons", "sum_intervals_to_point", "FeatureProfiles.set_profiles", "construct_intron_profile",
              "construct_profile"):
        chk.inconclusive_if(counts.get(f, 0) == 0, "contract on %s never evaluated" % f)
    chk.inconclusive_if(chk.extra.get("profiles_built_from_command_line_options", 0) == 0, "no profile built from command-line derived parameters")
    chk.inconclusive_if(chk.extra.get("split_profiles_with_pipeline_comparator", 0) == 0, "split-exon profiles with the pipeline's comparator never built")
    chk.inconclusive_if(chk.extra.get("model_gene_isoform_profiles_checked", 0) == 0, "no isoform profile of a gene built from transcript models checked")
    chk.min_nontrivial = 1000
