"""C04 — novel transcripts are evidence-backed, correctly labelled and non-redundant.

Monitor: offline checker over *.transcript_models.gtf, *.transcript_model_reads.tsv, *.corrected_reads.bed and the input GTF of
CLI runs.  Oracle: set containment / inequality computed from the files (this file).
"""
import os
import shutil
from collections import defaultdict

from vlib import runner, pipeline, world, world2, parse
from vlib.checks.c03 import noisy_world, STRATEGIES, main_chroms_of

LEVEL = "exploration"


def run(chk, scratch):
    thorough = chk.tier == "thorough"
    chk.rule = ("CLI runs over model-construction strategies, with and without annotation, on noisy worlds with hidden isoforms of both kinds (nnic: an "
                "unannotated junction; nic: a new combination of annotated introns), multi-mappers, a locus processed in several regions; every novel model is "
                "judged: introns present in corrected reads of its chromosome, supporting reads listed, definite strand, nic/nnic suffix, intron chain unique. "
                "non-trivial = distinct (nic/nnic/mono, #introns, strategy, annotated) tuples")
    dts = ["nanopore", "pacbio_ccs", "assembly"]
    jobs = []
    if thorough:
        for si in range(4):
            for k, st in enumerate(STRATEGIES):
                jobs.append((chk.seed * 100 + si, st, dts[(k + si) % 3], True))
                if k % 2 == 0:
                    jobs.append((chk.seed * 100 + si, st, dts[(k + si + 1) % 3], False))
        for k in range(3):
            jobs.append((9000 + chk.seed * 10 + k, ("sensitive_ont", "all", "default_pacbio")[k], dts[k], True))
    else:
        jobs = [(chk.seed * 100, "default_ont", "nanopore", True), (chk.seed * 100, "sensitive_pacbio", "pacbio_ccs", True),
                (chk.seed * 100 + 1, "all", "assembly", True), (chk.seed * 100 + 1, "sensitive_ont", "nanopore", False),
                (chk.seed * 100 + 2, "default_pacbio", "pacbio_ccs", True), (chk.seed * 100 + 2, "all", "nanopore", False),
                (chk.seed * 100 + 3, "sensitive_ont", "nanopore", True), (9000 + chk.seed * 10, "sensitive_ont", "nanopore", True)]
    worlds = {}
    for seed in sorted(set(j[0] for j in jobs)):
        d = os.path.join(scratch, "w%d" % seed)
        w = world2.split_locus_world(seed) if seed >= 9000 else noisy_world(seed)
        if seed < 9000:
            # unannotated loci at the SAME coordinates on two sequences whose first introns begin 3 bp apart: 20 reads on the longest sequence
            # (handled first when one process handles everything), 6 on the other; what was counted on one sequence says nothing about another
            from vlib.world import Gene as _G, Transcript as _T
            order = sorted(main_chroms_of(w), key=lambda c: -w.chrom_len(c))
            p0 = max(g.end for g in w.genes if g.chrom in order[:2]) + 4000
            if len(order) >= 2 and p0 + 3000 < min(w.chrom_len(c) for c in order[:2]):
                for k, (chrom, off, n_reads) in enumerate(((order[0], 0, 20), (order[1], 3, 6))):
                    ex = [(p0, p0 + 500 + off), (p0 + 1001, p0 + 1200), (p0 + 1801, p0 + 2200)]
                    g = _G("SHD%d" % (k + 1), chrom, "+")
                    g.hidden.append(_T(g.id + ".h1", g.id, chrom, "+", ex, False, "same-coordinates-other-sequence"))
                    for intr in g.hidden[0].introns:
                        w.plant_sites(chrom, intr, "+")
                    w.genes.append(g)
                    for _ in range(n_reads):
                        w.read_from_transcript(g.hidden[0], mode="full", jitter=0, polya=True, flag=0)
                chk.count("worlds_with_near_identical_loci_on_two_sequences")
        if seed % 2 == 1 and seed < 9000:
            world2.strip_tails(w)          # polyA-trimmed data: no polyA requirement, ends defined by read starts/ends only
        pipeline.write_world(w, d)
        worlds[seed] = (d, w)

    def one(job):
        seed, st, dt, annotated = job
        d, w = worlds[seed]
        out = os.path.join(d, "out_%s_%s_%s" % (st, dt, annotated))
        pr = ["--polya_requirement", "never"] if (seed + len(st) + len(dt)) % 2 == 0 else []
        if ((seed + len(st) + len(dt)) // 2) % 2 == 0:
            pr = pr + ["--report_canonical", "only_canonical"]       # the strictest reporting level: chains without any canonical site are dropped
        r = pipeline.run(d, out, data_type=dt, threads=1 + (seed + len(st)) % 2, annotated=annotated, home=out + "_home",
                         extra=["--model_construction_strategy", st, "--report_novel_unspliced", "true"] + pr)
        return job, out, r
    novel_total = 0
    kinds = defaultdict(int)
    for job, out, r in runner.parallel(one, jobs, workers=8):
        seed, st, dt, annotated = job
        d, w = worlds[seed]
        desc = "world=%d strategy=%s data_type=%s annotated=%s" % (seed, st, dt, annotated)
        wit = {"world_seed": seed, "strategy": st, "data_type": dt, "annotated": annotated}
        if r["rc"] is None:
            chk.inconclusive.append("watchdog expired: " + desc)
            continue
        if r["rc"] != 0:
            chk.violation("run-failed", "%s: %s" % (desc, pipeline.fail_text(r)), wit)
            continue
        o = pipeline.Outputs(out)
        models = o.models()
        ref = {t.id: t for t in w.all_transcripts()} if annotated else {}
        ref_introns = defaultdict(set)
        ref_chains = defaultdict(set)
        for t in ref.values():
            for i in t.introns:
                ref_introns[t.chrom].add(i)
            if t.introns:
                ref_chains[(t.chrom, t.strand)].add(tuple(t.introns))
        bed_introns = defaultdict(set)
        for b in o.bed():
            for i in parse.introns_of(b.exons()):
                bed_introns[b.chr].add(i)
        mr = o.model_reads()
        reads_of = defaultdict(set)
        for read, m in mr:
            if m != "*":
                reads_of[m].add(read)
                if m not in models.transcripts:
                    chk.violation("model-reads-names-unknown-transcript", "%s: transcript_model_reads lists %s for read %s, not in the GTF" % (desc, m, read), wit)
        novel_chains = defaultdict(list)
        for tid, t in models.transcripts.items():
            if tid in ref:
                continue
            novel_total += 1
            chk.note()
            introns = parse.introns_of(t["exons"])
            kind = "mono" if not introns else ("nic" if tid.endswith(".nic") else "nnic" if tid.endswith(".nnic") else "other")
            kinds[kind] += 1
            chk.nontrivial.add((kind, min(len(introns), 8), st, annotated))
            for i in introns:
                if i not in bed_introns[t["chr"]]:
                    chk.violation("novel-intron-without-read-evidence:" + kind,
                                  "%s: %s intron %s is in no corrected read alignment of %s" % (desc, tid, i, t["chr"]), wit)
            if not reads_of.get(tid):
                chk.violation("novel-model-without-supporting-read:" + kind, "%s: %s has no line in transcript_model_reads" % (desc, tid), wit)
            if t["strand"] not in ("+", "-"):
                chk.violation("novel-model-indefinite-strand:" + kind, "%s: %s strand '%s'" % (desc, tid, t["strand"]), wit)
            if introns:
                all_annot = all(i in ref_introns[t["chr"]] for i in introns)
                if annotated:
                    if tid.endswith(".nic") and not all_annot:
                        chk.violation("suffix-nic-with-unannotated-intron", "%s: %s has unannotated introns %s" %
                                      (desc, tid, [i for i in introns if i not in ref_introns[t["chr"]]][:3]), wit)
                    if tid.endswith(".nnic") and all_annot:
                        chk.violation("suffix-nnic-with-only-annotated-introns", "%s: %s" % (desc, tid), wit)
                if not (tid.endswith(".nic") or tid.endswith(".nnic")):
                    chk.violation("novel-id-without-suffix", "%s: %s" % (desc, tid), wit)
                if tuple(introns) in ref_chains[(t["chr"], t["strand"])]:
                    chk.violation("novel-model-repeats-reference-intron-chain", "%s: %s has the intron chain of a reference transcript" % (desc, tid), wit)
                novel_chains[(t["chr"], t["strand"], tuple(introns))].append(tid)
            if not annotated:
                if not str(t["gene"]).startswith("novel_gene_"):
                    chk.violation("annotation-free-model-in-non-novel-gene", "%s: %s gene %s" % (desc, tid, t["gene"]), wit)
        for key, tids in novel_chains.items():
            if len(tids) > 1:
                chk.violation("novel-models-share-intron-chain", "%s: %s have the same intron chain on %s%s" % (desc, tids, key[0], key[1]), wit)
        if not annotated:
            for tid in models.transcripts:
                if tid in set(t.id for t in w.all_transcripts()):
                    chk.violation("annotation-free-run-reports-known-id", "%s: %s" % (desc, tid), wit)
        chk.sample({"run": desc, "novel": sum(1 for x in models.transcripts if x not in ref), "model_read_lines": len(mr)}, limit=4)
        if chk.violations and not getattr(chk, "witness_files", None):
            chk.witness_files = [os.path.join(d, f) for f in ("g.fa", "a.gtf", "r.bam", "r.bam.bai")]
        shutil.rmtree(out, ignore_errors=True)
    chk.extra.update({"novel_models_judged": novel_total, "novel_by_kind": dict(kinds)})
    chk.assumptions = ["chain comparison is exact (equal coordinates); 'supporting read' = a line in transcript_model_reads; intron evidence is looked up in "
                       "corrected_reads.bed of the same chromosome"]
    chk.inconclusive_if(kinds.get("nic", 0) == 0, "no .nic model produced")
    chk.inconclusive_if(kinds.get("nnic", 0) == 0, "no .nnic model produced")
    chk.min_nontrivial = 6
