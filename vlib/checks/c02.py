"""C02 — expression tables equal the documented weighting of the reported read assignments.

Monitor: offline checker over *.gene_counts.tsv, *.transcript_counts.tsv, *.transcript_model_counts.tsv and the *_tpm.tsv
files versus *.read_assignments.tsv (isoform, gene, assignment_type, gene_assignment=), *.corrected_reads.bed (block count =
"corrected alignment is spliced"), *.transcript_model_reads.tsv and the input BAM (unmapped records); the `counter` monitor
logs every increment (read, table, increment) so that a mismatch is attributed to reads and the per-read total weight is
also measured on the real counters.
Oracle: vlib/oracles/weights.py (documented weights, exact rationals).
"""
import os
import shutil
from collections import defaultdict
from fractions import Fraction

from vlib import runner, pipeline, world2, parse
from vlib.oracles import weights

LEVEL = "exploration"
STRATS = ["unique_only", "with_ambiguous", "unique_splicing_consistent", "unique_inconsistent", "all"]


def read_stats_lines(path):
    vals = {}
    for line in open(path):
        if line.startswith("__"):
            k, v = line.split()
            vals[k] = float(v)
    return vals


def check_tpm(chk, counts_path, tpm_path, norm, desc, wit, table):
    counts = {k: v for k, v in parse.read_counts(counts_path)[0].items() if not k.startswith("__")}
    tpm = {k: v for k, v in parse.read_counts(tpm_path)[0].items() if not k.startswith("__")}
    tot = sum(counts.values())
    if set(tpm) != set(counts) and norm == "simple" and table != "transcript_model":
        chk.violation("tpm-rows:" + table, "%s: TPM table rows differ from the count table rows" % desc, wit)
        return
    if tot == 0:
        return
    if norm == "simple":
        for k, c in counts.items():
            if k not in tpm:
                if c != 0:
                    chk.violation("tpm-row-missing:" + table, "%s: %s has count %s but no TPM row" % (desc, k, c), wit)
                continue
            exp = c * 1e6 / tot
            chk.note()
            if abs(tpm[k] - exp) > 1e-4 + 1e-9 * exp:
                chk.violation("tpm-value:" + table, "%s: %s TPM %.6f, expected count*1e6/sum = %.6f" % (desc, k, tpm[k], exp), wit)
        s = sum(tpm.values())
        if abs(s - 1e6) > 0.01 + 1e-6 * len(tpm):
            chk.violation("tpm-sum:" + table, "%s: TPM values sum to %.4f" % (desc, s), wit)
    else:
        # ratios preserved: one common scale factor
        k0 = max(counts, key=lambda k: counts[k])
        if counts[k0] > 0 and k0 in tpm:
            scale = tpm[k0] / counts[k0]
            for k, c in counts.items():
                if k in tpm:
                    chk.note()
                    if abs(tpm[k] - scale * c) > 1e-3 + 1e-6 * scale * c:
                        chk.violation("tpm-ratio:" + table, "%s: %s TPM %.6f is not %.6f x count %.2f" % (desc, k, tpm[k], scale, c), wit)


EXPERIMENTS = ["EXA", "EXB", "EXC"]


def run(chk, scratch):
    thorough = chk.tier == "thorough"
    chk.rule = ("rich worlds (ambiguous, inconsistent, multi-mapped, multi-chromosome reads, unmapped records) x gene/transcript strategies x "
                "normalisation; every cell of the gene, transcript and transcript-model count tables is compared with the exact sum of documented "
                "weights over the reported assignments; stats lines and TPM tables recomputed. non-trivial = distinct (table, strategy, multiset of "
                "assignment types contributing to a feature) with >= 2 types")
    if thorough:
        pairs = [(g, t) for g in STRATS for t in STRATS]
        norms = ["simple", "usable_reads"]
        seeds = [chk.seed * 10 + i for i in range(2)]
    else:
        pairs = [("unique_only", "all"), ("with_ambiguous", "unique_splicing_consistent"), ("unique_splicing_consistent", "unique_only"),
                 ("unique_inconsistent", "with_ambiguous"), ("all", "unique_inconsistent"), ("all", "all")]
        norms = ["simple"]
        seeds = [chk.seed * 10]
    jobs = []
    for si, seed in enumerate(seeds):
        for pi, (g, t) in enumerate(pairs):
            norm = norms[(pi + si) % len(norms)] if not thorough else None
            for n in (norms if thorough else [norm]):
                jobs.append((seed, g, t, n, False))
        # one run over three experiments (unequal shares of the reads, the unmapped records in the first two)
        g, t = pairs[(seed + 1) % len(pairs)]
        jobs.append((seed, g, t, norms[seed % len(norms)], True))
    worlds = {}
    for seed in seeds:
        d = os.path.join(scratch, "w%d" % seed)
        w = world2.rich_world(seed, n_chroms=4, genes_per_chrom=3, reads_per_t=6, hidden_cov=5, zoo=world2.ZOO_ALL)
        # feature ids are arbitrary strings: one expressed gene (and its transcripts) has an id that begins with an underscore, another one a
        # lower-case id that sorts after it (the statistics lines of the tables begin with TWO underscores)
        id_map = {}
        expressed_ = [g_ for g_ in w.genes if g_.transcripts and not g_.id.startswith(("P", "X", "Z")) and g_.id != "G1_1"]
        for g_, (gn, tn) in zip(expressed_[:2], (("_7SK_like", "_7SK_like.t%d"), ("zeta_gene", "zeta_gene.t%d"))):
            id_map[g_.id] = gn
            for k_, t_ in enumerate(g_.transcripts):
                id_map[t_.id] = tn % (k_ + 1)
        pipeline.write_world(w, d, id_map=id_map)
        # every second mapped record: input of an EARLIER run into the same output folder (see below)
        w.write_bam(os.path.join(d, "half.bam"), reads=[r for i, r in enumerate(w.reads) if i % 2 == 0])
        lst, per = pipeline.write_experiments(w, d, EXPERIMENTS, lambda e, k, r: (k % 6 in ((0, 1, 2), (3, 4), (5,))[e]) if not r.flag & 4 else k % 2 == e)
        worlds[seed] = (d, w, per, lst)

    def one(job):
        seed, g, t, n, multi = job
        d, w, per, lst = worlds[seed]
        out = os.path.join(d, "out_%s_%s_%s%s" % (g, t, n, "_multi" if multi else ""))
        ev = out + "_ev"
        if multi:
            r = pipeline.run(d, out, threads=1 + seed % 2, bam_list=lst, extra=["--gene_quantification", g, "--transcript_quantification", t,
                                                                                  "--normalization_method", n],
                             home=os.path.join(d, "home_%s_%s_%s_multi" % (g, t, n)), mon=["counter"], events=ev)
            return job, out, ev, r
        if (len(g) + len(t) + seed) % 3 == 0:
            # the output folder already holds the results of an earlier run on other reads (same prefix): the run below uses --force
            r0 = pipeline.run(d, out, threads=1, bam=[os.path.join(d, "half.bam")], home=os.path.join(d, "home_%s_%s_%s" % (g, t, n)))
        # grouped tables (by the RG tag) are written as well: each of them follows the strategy of ITS level and sums to the ungrouped table
        r = pipeline.run(d, out, threads=1 + (len(g) + len(t)) % 2, extra=["--gene_quantification", g, "--transcript_quantification", t,
                                                   "--normalization_method", n, "--read_group", "tag:RG"], home=os.path.join(d, "home_%s_%s_%s" % (g, t, n)),
                         mon=["counter"], events=ev)
        return job, out, ev, r
    cells = 0
    for job, out, ev, r in runner.parallel(one, jobs, workers=8):
        seed, g, t, n, multi = job
        d, w = worlds[seed][:2]
        desc = desc0 = "world=%d gene=%s transcript=%s norm=%s%s" % (seed, g, t, n, " [3 experiments]" if multi else "")
        wit = {"world_seed": seed, "gene_quantification": g, "transcript_quantification": t, "normalization": n, "experiments": EXPERIMENTS if multi else None}
        per = worlds[seed][2]
        if r["rc"] is None:
            chk.inconclusive.append("watchdog expired: " + desc)
            continue
        if r["rc"] != 0:
            chk.violation("run-failed", "%s: %s" % (desc, pipeline.fail_text(r)), wit)
            continue
        if multi:
            units = [(name, sum(1 for rd in per[name] if rd.flag & 4), "%s experiment=%s (one of %d in the run)" % (desc0, name, len(per))) for name in EXPERIMENTS]
        else:
            units = [(pipeline.PREFIX, sum(1 for rd in w.reads if rd.flag & 4), desc0)]
        for prefix, unmapped, desc in units:
          if multi:
              chk.count("experiments_of_multi_experiment_runs", 1)
          o = pipeline.Outputs(out, prefix=prefix)
          recs = weights.group_records(o.assignments())
          spliced = defaultdict(bool)
          for b in o.bed():
              if b.n > 1:
                  spliced[(b.name, b.chr)] = True
          # per-read global view (a read kept on several loci is ONE read shared by all features of all its records)
          by_read = defaultdict(list)
          for rc_ in recs:
              by_read[rc_["read"]].append(rc_)
          for level, strat, fname in (("gene", g, "gene_counts.tsv"), ("transcript", t, "transcript_counts.tsv")):
              exp = defaultdict(Fraction)
              exp_rec = defaultdict(Fraction)     # what the known tie mechanism gives: k counted per record (locus) instead of per read
              types_of = defaultdict(set)
              confirming = set()
              amb_reads = set()
              amb_records = 0
              nofeat_reads = set()
              nofeat_records = 0
              multi_locus_single = defaultdict(int)
              multi_locus_multi = defaultdict(int)
              not_a_tie = defaultdict(int)
              for read, rl in by_read.items():
                  feats = set()
                  for rc_ in rl:
                      feats |= (rc_["genes"] if level == "gene" else rc_["isoforms"])
                  for rc_ in rl:
                      f = rc_["genes"] if level == "gene" else rc_["isoforms"]
                      atype = rc_["gtype"] if level == "gene" else rc_["atype"]
                      if atype in ("noninformative", "intergenic") or not f:
                          nofeat_records += 1
                          nofeat_reads.add(read)
                          continue
                      if atype == "ambiguous":
                          amb_records += 1
                          amb_reads.add(read)
                      k = len(feats)
                      wgt = weights.weight(atype, k, strat) if k > 1 or atype not in weights.UNIQUE else Fraction(1)
                      if atype in weights.UNIQUE and len(f) == 1 and k == 1:
                          wgt = Fraction(1)
                          if level == "gene" or spliced[(read, rc_["chr"])]:
                              if spliced[(read, rc_["chr"])]:
                                  confirming |= f
                      if len(rl) > 1 and k > len(f) and atype in weights.UNIQUE:
                          # the resolver marks every record of a read it keeps on several loci as ambiguous; a record that still says
                          # 'unique' while the read is reported with other features elsewhere is not the outcome of a tie
                          for x in f:
                              not_a_tie[x] += 1
                      if len(rl) > 1 and len(f) == 1 and k > 1:
                          multi_locus_single[next(iter(f))] += 1
                      if len(rl) > 1 and len(f) > 1 and k > len(f):
                          for x in f:
                              multi_locus_multi[x] += 1
                      wgt_rec = weights.weight(atype, len(f), strat)
                      for x in f:
                          exp[x] += wgt
                          exp_rec[x] += wgt_rec
                          types_of[x].add(atype)
              table = o.counts(fname)
              gp = o.path(fname.replace("_counts", "_grouped_counts"))
              if parse.exists(gp):
                  hdr, matrix = parse.read_matrix(gp)
                  chk.count("grouped_rows_summed", len(matrix))
                  for feat, row in matrix.items():
                      if feat in table and abs(sum(row) - table[feat]) > 0.005 * (len(row) + 1) + 1e-9:
                          chk.violation("grouped-table-does-not-sum-to-ungrouped:%s" % level, "%s: %s: groups %s sum to %.2f, %s has %.2f" %
                                        (desc, feat, hdr, sum(row), fname, table[feat]), wit)
              for f_ in (fname, fname.replace("counts", "tpm")):
                  dup = parse.duplicate_rows(o.path(f_))
                  if dup:
                      chk.violation("table-row-repeated:%s" % level, "%s: %s has %d feature ids on more than one line, e.g. %s" % (desc, f_, len(dup), dup[:3]), wit)
              stats = read_stats_lines(o.path(fname))
              for feat, val in table.items():
                  if feat.startswith("__"):
                      continue
                  e = exp.get(feat, Fraction(0))
                  cells += 1
                  chk.note()
                  if len(types_of.get(feat, ())) >= 2:
                      chk.nontrivial.add((level, strat, tuple(sorted(types_of[feat]))))
                  ok_sum = abs(val - float(e)) <= 0.005 + 1e-9
                  ok_zero = val == 0.0 and feat not in confirming
                  if not (ok_sum or ok_zero):
                      key = "count-cell-differs:%s:%s" % (level, strat)
                      if (multi_locus_single.get(feat) or multi_locus_multi.get(feat)) and not not_a_tie.get(feat) and \
                              abs(val - float(exp_rec.get(feat, 0))) <= 0.005 + 1e-9:
                          # exactly the value obtained when a read kept on several loci is weighted per locus
                          key = "multi-locus-tie/%s-feature-record:%s" % ("multi" if multi_locus_multi.get(feat) else "single", level)
                      chk.violation(key, "%s: %s %s printed %.2f, documented weights give %s (= %.4f) from assignment types %s%s" %
                                    (desc, fname, feat, val, e, float(e), sorted(types_of.get(feat, ())),
                                     "; the feature has records of reads kept on several loci" if (multi_locus_single.get(feat) or multi_locus_multi.get(feat)) else ""), wit)
              for feat, e in exp.items():
                  if e > 0 and feat not in table:
                      chk.violation("count-row-missing:%s" % level, "%s: %s has no row for %s (expected %s)" % (desc, fname, feat, e), wit)
              # stats lines
              if not (len(amb_reads) <= stats.get("__ambiguous", -1) <= amb_records):
                  chk.violation("stats-line:__ambiguous:%s" % level, "%s: %s says __ambiguous %s, reads with ambiguous %s assignment: %d (records %d)" %
                                (desc, fname, stats.get("__ambiguous"), level, len(amb_reads), amb_records), wit)
              if not (len(nofeat_reads) <= stats.get("__no_feature", -1) <= nofeat_records):
                  chk.violation("stats-line:__no_feature:%s" % level, "%s: %s says __no_feature %s, unassigned reads: %d (records %d)" %
                                (desc, fname, stats.get("__no_feature"), len(nofeat_reads), nofeat_records), wit)
              if stats.get("__not_aligned") != unmapped:
                  chk.violation("stats-line:__not_aligned:%s" % level, "%s: %s says __not_aligned %s, the BAM has %d unmapped records" %
                                (desc, fname, stats.get("__not_aligned"), unmapped), wit)
              check_tpm(chk, o.path(fname), o.path(fname.replace("counts", "tpm")), n, desc, wit, level)
          # transcript model counts
          mr = o.model_reads()
          models_of = defaultdict(set)
          for read, m in mr:
              if m != "*":
                  models_of[read].add(m)
          exp = defaultdict(Fraction)
          model_chr = {}
          try:
              # locus of a model = connected component of overlapping model spans on its chromosome
              spans = sorted((tr["chr"], min(e[0] for e in tr["exons"]), max(e[1] for e in tr["exons"]), tid) for tid, tr in o.models().transcripts.items())
              cur = None
              for c_, s_, e_, tid in spans:
                  if cur is None or cur[0] != c_ or s_ > cur[2]:
                      cur = [c_, s_, e_]
                  else:
                      cur[2] = max(cur[2], e_)
                  model_chr[tid] = (c_, cur[1])
          except Exception:
              pass
          tie_models = set()
          tie_multi = set()
          exp_rec_m = defaultdict(Fraction)
          for read, ms in models_of.items():
              wgt = Fraction(1) if len(ms) == 1 else (Fraction(1, len(ms)) if weights.admits(t)["ambiguous"] else Fraction(0))
              per_chr = defaultdict(set)
              for m in ms:
                  per_chr[model_chr.get(m)].add(m)
              if len(per_chr) > 1:
                  # a read kept on several loci: models of one locus see it as a read of that locus only
                  tie_models |= ms
                  for cms in per_chr.values():
                      if len(cms) > 1:
                          tie_multi |= cms
              for m in ms:
                  exp[m] += wgt
              for c_, cms in per_chr.items():
                  w2 = Fraction(1) if len(cms) == 1 else (Fraction(1, len(cms)) if weights.admits(t)["ambiguous"] else Fraction(0))
                  for m in cms:
                      exp_rec_m[m] += w2
          table = o.counts("transcript_model_counts.tsv")
          dup = parse.duplicate_rows(o.path("transcript_model_counts.tsv"))
          if dup:
              chk.violation("table-row-repeated:transcript_model", "%s: transcript_model_counts.tsv has %d ids on more than one line, e.g. %s" % (desc, len(dup), dup[:3]), wit)
          for m, val in table.items():
              if m.startswith("__"):
                  continue
              cells += 1
              chk.note()
              e = exp.get(m, Fraction(0))
              if abs(val - float(e)) > 0.005 + 1e-9:
                  key = "model-count-cell-differs:%s" % t
                  if m in tie_models and abs(val - float(exp_rec_m.get(m, 0))) <= 0.005 + 1e-9:
                      key = "multi-locus-tie/%s-feature-record:transcript_model" % ("multi" if m in tie_multi else "single")
                  chk.violation(key, "%s: transcript_model_counts %s printed %.2f, reads listed for it give %s%s" %
                                (desc, m, val, e, "; some of its reads are kept on several loci" if m in tie_models else ""), wit)
          for m, e in exp.items():
              if float(e) >= 0.005 and m not in table:
                  chk.violation("model-count-row-missing", "%s: model %s has reads (weight %s) but no row" % (desc, m, e), wit)
          check_tpm(chk, o.path("transcript_model_counts.tsv"), o.path("transcript_model_tpm.tsv"), n, desc, wit, "transcript_model")
          # per-read total weight on the real counters (increment log)
          import re as _re
          tot = defaultdict(float)
          for e in runner.load_events(ev):
              if e["k"] == "cnt" and not e["grouped"] and os.path.basename(e["file"]).startswith((prefix + ".", prefix + "_")):
                  tot[(_re.sub(r"_chr\d+", "", e["file"]), e["read"])] += e["inc"]
          for (f, read), v in tot.items():
              if v > 1.0 + 1e-9:
                  lvl = "gene" if "gene" in f else "transcript"
                  key = "read-total-weight-above-1:" + lvl
                  lvl_t = "gtype" if lvl == "gene" else "atype"
                  lvl_f = "genes" if lvl == "gene" else "isoforms"
                  all_f = set().union(*[rc_[lvl_f] for rc_ in by_read.get(read, ())]) if by_read.get(read) else set()
                  if len(by_read.get(read, ())) > 1 and any(rc_[lvl_t] in weights.UNIQUE and len(all_f) > len(rc_[lvl_f]) for rc_ in by_read[read]):
                      key = "read-total-weight-above-1:%s:reported-unique-on-several-loci" % lvl
                  elif len(by_read.get(read, ())) > 1:
                      mfr = any(len(rc_["genes"] if lvl == "gene" else rc_["isoforms"]) > 1 for rc_ in by_read[read])
                      key = "multi-locus-tie/%s-feature-record:%s" % ("multi" if mfr else "single", lvl)
                  chk.violation(key, "%s: read %s added a total weight of %.3f to the %s counters (reported on %d loci)" %
                                (desc, read, v, lvl, len(by_read.get(read, ()))), wit)
          chk.count("increment_events", len(tot))
          chk.sample({"run": desc, "records": len(recs), "reads_with_several_records": sum(1 for v in by_read.values() if len(v) > 1)}, limit=3)
        shutil.rmtree(out, ignore_errors=True)
    chk.extra["cells_checked"] = cells
    chk.assumptions = ["weights from docs/cmd.md; a read kept on several loci is one read shared by all features of all its records",
                       "printed values compared at print resolution (|delta| <= 0.005); TPM recomputed from the printed counts",
                       "__ambiguous/__no_feature accepted between the number of distinct reads and the number of records"]
    chk.inconclusive_if(cells == 0, "no cell checked")
    chk.inconclusive_if(chk.extra.get("experiments_of_multi_experiment_runs", 0) < 3, "no run over several experiments judged")
    chk.min_nontrivial = 3
