"""C05 — every aligned read is accounted for; region splitting loses or duplicates none.

Monitors:
 (a) in-process: the real AlignmentCollector.process() generator is driven over generated BAMs for both storages
     (BAMAlignmentStorage / InMemoryAlignmentStorage) with the tree's own args (isoquant.parse_args +
     set_additional_params); per yielded region the read ids are recorded; a hook on split_coverage_regions records
     (cluster region, read count, bins, regions returned);
 (b) CLI runs: read_assignments.tsv / corrected_reads.bed / isoquant.log versus the input BAM read with pysam.
Oracle: multiset equality between the expected read ids (documented filters applied from flags / MAPQ) and the
reported ids; no two identical records; log statistics equal per-category record counts.
"""
import os
import random
import re
import shutil
from collections import Counter, defaultdict
from concurrent.futures import ProcessPoolExecutor

import pysam

from vlib import runner, pipeline, world, parse
from vlib.world import World, Read

LEVEL = "exploration"
BIN = 256


def coverage_world(seed, kinds, annotated=False):
    """One chromosome per cluster kind list; returns world and per-cluster truth."""
    w = World(seed)
    rng = w.rng
    clusters = []
    w.add_chrom("chr1", 30000 + 130000 * len(kinds))
    pos = 3000
    genes_under = []
    for kind in kinds:
        start = pos + rng.randint(0, 255)     # random offset relative to the 256-bp bins
        names = []

        def add(s, e, intron=None):
            ex = [(s, e)] if intron is None else [(s, intron[0] - 1), (intron[1] + 1, e)]
            r = w.make_read("chr1", ex, truth={"cluster": len(clusters), "kind": kind})
            names.append(r.name)
            return r
        if kind == "pile1bin":
            # >= 1024 short reads inside ONE 256-bp bin
            b0 = (start // BIN + 1) * BIN
            n = rng.randint(1030, 1300)
            for _ in range(n):
                s = b0 + 1 + rng.randint(0, 60)
                e = s + rng.randint(60, 180)
                e = min(e, b0 + BIN - 2)
                add(s + 1, e)
            end = b0 + BIN
        elif kind == "pile2bins":
            b0 = (start // BIN + 1) * BIN
            n = rng.randint(1030, 1200)
            for _ in range(n):
                s = b0 + 1 + rng.randint(0, 200)
                add(s + 1, s + rng.randint(100, 280))
            end = b0 + 3 * BIN
        elif kind in ("valleys", "valleys_tail", "long_sparse", "bridged"):
            # splitting only happens at a coverage valley that lies >= 128 bins (32 kb) after the current region start,
            # so clusters are long: [cover >= 33 kb] [dense block] [valley = one thin read] [cover >= 33 kb] ...
            if len(clusters) % 2 == 1 or kind == "bridged":
                # the leftmost alignment of the cluster begins exactly at the first base of a 256-bp bin (0-based start divisible by 256)
                start = (start // BIN + 1) * BIN + 1
            cur = start

            def cover(length, step, rlen):
                nonlocal cur
                c2 = cur
                stop = cur + length
                while c2 + rlen < stop:
                    add(c2, c2 + rlen)
                    c2 += step
                add(stop - rlen, stop)
                cur = stop

            def dense(n, blen):
                nonlocal cur
                for _ in range(n):
                    s = cur + rng.randint(0, blen - 300)
                    add(s, min(cur + blen, s + rng.randint(250, 900)))
                c2 = cur
                while c2 < cur + blen:
                    add(c2, min(cur + blen, c2 + 400))
                    c2 += 300
                cur = cur + blen

            def valley(vlen):
                nonlocal cur
                add(cur - 100, cur + vlen + 100)     # ONE read spans the valley: coverage 1 in every bin
                cur = cur + vlen
            if kind == "long_sparse":
                cover(rng.randint(34000, 38000), 300, 900)
                valley(rng.choice((600, 1500)))
                cover(rng.randint(34000, 40000), 300, 900)
                valley(rng.choice((300, 900)))
                cover(rng.randint(3000, 8000), 300, 900)
            else:
                cover(rng.randint(33500, 36000), 150, 900)
                dense(rng.randint(350, 500), rng.randint(1200, 2500))
                valley(rng.choice((300, 700, 1500)))
                dense(rng.randint(300, 450), rng.randint(1200, 2500))
                cover(rng.randint(33500, 36000), 150, 900)
                if kind == "valleys":
                    valley(rng.choice((400, 1000)))
                    dense(rng.randint(300, 400), rng.randint(1000, 2000))
                if kind == "valleys_tail":
                    # coverage stays above the valley threshold up to a bin boundary; the LAST bin holds one bridging read end
                    # and one or two short reads that lie only in that bin
                    b = ((cur + 600) // BIN + 1) * BIN         # 0-based first position of the last bin
                    c2 = cur - 400
                    while c2 + 900 < b - 1:
                        add(c2, c2 + 900)
                        c2 += 150
                    for k in range(6):
                        add(b - 950 - 10 * k, b - 2 - k)       # keep depth > threshold right up to the boundary (1-based end <= b-1)
                    add(b - 700, b + 4)                        # bridging read: 0-based end b+3, touches the last bin
                    for k in range(rng.randint(1, 2)):
                        s = b + 3 + k
                        add(s, s + rng.randint(60, 150))
                    cur = b + BIN
                if kind == "bridged":
                    for _ in range(5):
                        add(start + 100, cur + 900, intron=(start + 400, cur + 500))
                    cur = cur + 1000
            end = cur
        elif kind == "neighbour_in_bin":
            # two clusters 20 bp apart whose facing ends lie in ONE 256-bp bin: the first cluster's only alignment ending in that bin is its
            # last one; the second begins with three short reads lying entirely inside the bin and goes on as a > 64 kb chain with
            # coverage valleys (processed in several regions)
            b0 = (start // BIN + 6) * BIN
            names_a = []
            for s_, e_ in ((b0 - 1300, b0 - 900), (b0 - 1100, b0 - 700), (b0 - 900, b0 - 500), (b0 - 700, b0 - 300), (b0 - 500, b0 + 30)):
                r = w.make_read("chr1", [(s_, e_)], truth={"cluster": len(clusters), "kind": "neighbour_in_bin:first"})
                names_a.append(r.name)
            clusters.append({"kind": "neighbour_in_bin:first", "start": b0 - 1300, "end": b0 + 30, "reads": names_a})
            for s_, e_ in ((b0 + 51, b0 + 120), (b0 + 55, b0 + 130), (b0 + 60, b0 + 140)):
                add(s_, e_)
            cur = b0 + 100
            start = b0 + 51

            def cover2(length, step, rlen):
                nonlocal cur
                c2 = cur
                stop = cur + length
                while c2 + rlen < stop:
                    add(c2, c2 + rlen)
                    c2 += step
                add(stop - rlen, stop)
                cur = stop
            cover2(rng.randint(33500, 36000), 300, 1000)
            add(cur - 100, cur + 700)
            cur += 600
            cover2(rng.randint(33500, 36000), 300, 1000)
            add(cur - 100, cur + 500)
            cur += 400
            cover2(rng.randint(3000, 6000), 300, 1000)
            end = cur
        elif kind == "two_gene_bridge":
            # two annotated genes 49 kb apart, 30 reads on each, and ONE read spliced across both: the cluster is cut between the genes, the
            # bridging alignment is seen from both sub-regions, each of which knows one of the genes only
            from vlib.world import Gene, Transcript
            gl = [(start, start + 500), (start + 1000, start + 1400), (start + 2000, start + 2600)]
            gr = [(start + 49000, start + 49500), (start + 50000, start + 50400), (start + 51000, start + 51600)]
            for gid, ex in (("GL%d" % len(clusters), gl), ("GR%d" % len(clusters), gr)):
                g_ = Gene(gid, "chr1", "+")
                g_.transcripts.append(Transcript(gid + ".t1", gid, "chr1", "+", ex, True, "bridged-pair"))
                for intr in g_.transcripts[0].introns:
                    w.plant_sites("chr1", intr, "+")
                w.genes.append(g_)
                for k in range(30):
                    r = w.make_read("chr1", [(ex[0][0] + k % 7, ex[0][1]), ex[1], (ex[2][0], ex[2][1] - k % 5)], truth={"cluster": len(clusters), "kind": kind})
                    names.append(r.name)
            w.plant_sites("chr1", (gl[2][1] + 1, gr[0][0] - 1), "+")
            r = w.make_read("chr1", [(gl[0][0] + 5, gl[0][1])] + gl[1:] + gr[:2] + [(gr[2][0], gr[2][1] - 10)], truth={"cluster": len(clusters), "kind": kind, "class": "alignment-over-two-genes"})
            names.append(r.name)
            end = gr[2][1]
        elif kind == "gene_chain_lowmapq":
            # an annotated gene with 20 reads, a two-deep chain of unrelated MAPQ-60 reads leading 9 kb away from it, and at the end of the chain
            # an unspliced MAPQ-3 read that overlaps no annotated feature: one region, which holds a gene
            from vlib.world import Gene, Transcript
            gx = [(start, start + 400), (start + 900, start + 1200), (start + 1700, start + 2200)]
            g_ = Gene("GC%d" % len(clusters), "chr1", "+")
            g_.transcripts.append(Transcript(g_.id + ".t1", g_.id, "chr1", "+", gx, True, "gene-with-a-chain"))
            for intr in g_.transcripts[0].introns:
                w.plant_sites("chr1", intr, "+")
            w.genes.append(g_)
            for k in range(20):
                r = w.make_read("chr1", [(gx[0][0] + k % 7, gx[0][1]), gx[1], (gx[2][0], gx[2][1] - k % 5)], truth={"cluster": len(clusters), "kind": kind})
                names.append(r.name)
            c2 = gx[2][1] - 200
            while c2 < start + 11000:
                add(c2, c2 + 800)
                add(c2 + 150, c2 + 950)
                c2 += 500
            r = w.make_read("chr1", [(c2 + 100, c2 + 900)], mapq=3,
                            truth={"cluster": len(clusters), "kind": kind, "class": "gene-free-low-mapq-read-in-a-region-that-holds-a-gene",
                                   "mapq_rule": "outside-genes", "n_exons": 1})
            names.append(r.name)
            end = c2 + 900
        elif kind == "gene_valley":
            # a four-exon gene with a 36-kb middle intron: pile-ups over exons 1-2 and 3-4, ONE full-length read bridging the
            # coverage-1 stretch (processed in both sub-regions), which also has a secondary alignment upstream of the cluster
            from vlib.world import Gene, Transcript
            gx = [(start, start + 400), (start + 2000, start + 2400), (start + 38500 + rng.randint(0, 700), 0), (0, 0)]
            gx[2] = (gx[2][0], gx[2][0] + 400)
            gx[3] = (gx[2][1] + 1600, gx[2][1] + 2000)
            strand = rng.choice("+-")
            gv = Gene("GV%d" % len(clusters), "chr1", strand)
            gv.transcripts.append(Transcript(gv.id + ".t1", gv.id, "chr1", strand, list(gx), True, "gene-over-valley"))
            for intr in gv.transcripts[0].introns:
                w.plant_sites("chr1", intr, strand)
            w.genes.append(gv)
            g0 = Gene("GS%d" % len(clusters), "chr1", strand)        # mono-exonic gene under the secondary alignment
            g0.transcripts.append(Transcript(g0.id + ".t1", g0.id, "chr1", strand, [(start - 1600, start - 900)], True, "mono"))
            w.genes.append(g0)
            for _ in range(25):
                r = w.make_read("chr1", [(gx[0][0] + rng.randint(0, 40), gx[0][1]), (gx[1][0], gx[1][1] - rng.randint(0, 40))], truth={"cluster": len(clusters), "kind": kind})
                names.append(r.name)
                r = w.make_read("chr1", [(gx[2][0] + rng.randint(0, 40), gx[2][1]), (gx[3][0], gx[3][1] - rng.randint(0, 40))], truth={"cluster": len(clusters), "kind": kind})
                names.append(r.name)
            r = w.make_read("chr1", [(gx[0][0] + 3, gx[0][1])] + gx[1:3] + [(gx[3][0], gx[3][1] - 5)], truth={"cluster": len(clusters), "kind": kind, "bridge": True})
            names.append(r.name)
            w.make_read("chr1", [(start - 1500, start - 1010)], name=r.name, flag=256, mapq=60, truth={"cluster": len(clusters), "kind": kind, "bridge-secondary": True})
            end = gx[3][1]
        elif kind == "no_match_spliced":
            # a gene with two isoforms sharing their first (last) two exons; spliced reads that follow those two exons and continue with two
            # exons OUTSIDE the gene: they contradict both isoforms equally and lie mostly outside them, so that no isoform is named at all
            from vlib.world import Gene, Transcript
            strand = rng.choice("+-")
            base = start + 3500
            a_ = [(base, base + 300), (base + 1000, base + 1200), (base + 2000, base + 2300), (base + 3000, base + 3400)]
            gn = Gene("GN%d" % len(clusters), "chr1", strand)
            gn.transcripts.append(Transcript(gn.id + ".t1", gn.id, "chr1", strand, list(a_), True, "two-isoforms"))
            gn.transcripts.append(Transcript(gn.id + ".t2", gn.id, "chr1", strand, [a_[0], a_[1], a_[3]], True, "two-isoforms"))
            gn.transcripts.append(Transcript(gn.id + ".t3", gn.id, "chr1", strand, [a_[0], a_[2], a_[3]], True, "two-isoforms"))
            for t_ in gn.transcripts:
                for intr in t_.introns:
                    w.plant_sites("chr1", intr, strand)
            w.genes.append(gn)
            for k in range(4):
                r = w.make_read("chr1", list(a_), truth={"cluster": len(clusters), "kind": kind})
                names.append(r.name)
            # alignments with MAPQ 3 (below the cut-off that applies to INCONSISTENT alignments only): consistent with two isoforms
            # (ambiguous), and consistent with one (unique)
            for k in range(4):
                r = w.make_read("chr1", [(a_[0][0] + 20 + 3 * k, a_[0][1]), (a_[1][0], a_[1][1] - 15)], mapq=3,
                                truth={"cluster": len(clusters), "kind": kind, "class": "low-mapq-consistent-with-two-isoforms"})
                names.append(r.name)
                r = w.make_read("chr1", [(a_[0][0] + 10 + 3 * k, a_[0][1]), a_[1], a_[2], (a_[3][0], a_[3][1] - 12)], mapq=3,
                                truth={"cluster": len(clusters), "kind": kind, "class": "low-mapq-consistent-with-one-isoform"})
                names.append(r.name)
            for k in range(3):
                up = [(base - 3000 + 10 * k, base - 2700), (base - 2000, base - 1800), (base - 900, a_[0][1]), a_[1]]
                down = [a_[2], (a_[3][0], a_[3][1] + 900), (a_[3][1] + 1800, a_[3][1] + 2000), (a_[3][1] + 2700, a_[3][1] + 3000 - 10 * k)]
                for ex in (up, down):
                    r = w.make_read("chr1", ex, truth={"cluster": len(clusters), "kind": kind, "class": "spliced-read-without-any-isoform-match"})
                    names.append(r.name)
            end = a_[3][1] + 3000
        elif kind == "lowmapq_spliced":
            # gene-free locus: alignments with 3 and 4 exons and MAPQ 0 / 1 / 60 (the documented MAPQ filter concerns alignments with 1 or 2
            # exons only), plus 1- and 2-exon alignments with MAPQ >= 1
            ex4 = [(start, start + 300), (start + 700, start + 950), (start + 1400, start + 1700), (start + 2200, start + 2500)]
            for i_ in range(3):
                w.plant_sites("chr1", (ex4[i_][1] + 1, ex4[i_ + 1][0] - 1), "+")
            for q in (0, 1, 60):
                for n_ex in (3, 4):
                    for k in range(2):
                        r = w.make_read("chr1", [(ex4[0][0] + 5 * k, ex4[0][1])] + ex4[1:n_ex - 1] + [(ex4[n_ex - 1][0], ex4[n_ex - 1][1] - 7 * k)], mapq=q,
                                        truth={"cluster": len(clusters), "kind": kind, "mapq": q, "exons": n_ex})
                        names.append(r.name)
            for q in (1, 60):
                r = w.make_read("chr1", [(ex4[0][0] + 20, ex4[0][1] - 20)], mapq=q, truth={"cluster": len(clusters), "kind": kind})
                names.append(r.name)
                r = w.make_read("chr1", [(ex4[0][0] + 30, ex4[0][1]), (ex4[1][0], ex4[1][1] - 30)], mapq=q, truth={"cluster": len(clusters), "kind": kind})
                names.append(r.name)
            end = ex4[-1][1]
        elif kind == "mapq_grid":
            # reads of known kind at every MAPQ around the two documented cut-offs (--inconsistent_mapq_cutoff, default 5, for genic alignments
            # that are not consistent with any isoform; --simple_alignments_mapq_cutoff, default 1, for 1-2-exon alignments outside genes)
            from vlib.world import Gene, Transcript
            strand = rng.choice("+-")
            a_ = [(start, start + 300), (start + 1000, start + 1200), (start + 2600, start + 2900), (start + 3600, start + 4000)]
            gm = Gene("GM%d" % len(clusters), "chr1", strand)
            gm.transcripts.append(Transcript(gm.id + ".t1", gm.id, "chr1", strand, list(a_), True, "mapq-grid"))
            gm.transcripts.append(Transcript(gm.id + ".t2", gm.id, "chr1", strand, [a_[0], a_[1], a_[3]], True, "mapq-grid"))
            nov = (start + 1700, start + 1850)
            for intr in gm.transcripts[0].introns + gm.transcripts[1].introns + [(a_[1][1] + 1, nov[0] - 1), (nov[1] + 1, a_[2][0] - 1), (a_[0][1] + 1, a_[3][0] - 1)]:
                w.plant_sites("chr1", intr, strand)
            w.genes.append(gm)
            for q in (0, 1, 2, 3, 4, 5, 6, 60):
                for k in range(2):
                    for rule, ex in (("consistent", [(a_[0][0] + 4 * k, a_[0][1]), a_[1], a_[2], (a_[3][0], a_[3][1] - 6 * k)]),
                                     ("inconsistent", [(a_[0][0] + 4 * k, a_[0][1]), a_[1], nov, a_[2], (a_[3][0], a_[3][1] - 6 * k)]),
                                     ("inconsistent", [(a_[0][0] + 4 * k, a_[0][1]), (a_[3][0], a_[3][1] - 6 * k)]),
                                     ("inconsistent", [(start + 2000 + 5 * k, start + 2350)])):        # unspliced, inside an intron of every isoform
                        r = w.make_read("chr1", ex, mapq=q, truth={"cluster": len(clusters), "kind": kind, "mapq_rule": rule, "n_exons": len(ex)})
                        names.append(r.name)
            ig = start + 9000                                # gene-free locus
            ex3 = [(ig, ig + 300), (ig + 700, ig + 950), (ig + 1400, ig + 1700)]
            for i_ in range(2):
                w.plant_sites("chr1", (ex3[i_][1] + 1, ex3[i_ + 1][0] - 1), "+")
            for q in (0, 1, 2, 3, 60):
                for k in range(2):
                    for ex in ([(ex3[0][0] + 20 + k, ex3[0][1] - 20)], [(ex3[0][0] + 30 + k, ex3[0][1]), (ex3[1][0], ex3[1][1] - 30)],
                               [(ex3[0][0] + 7 * k, ex3[0][1]), ex3[1], (ex3[2][0], ex3[2][1] - 5 * k)]):
                        r = w.make_read("chr1", ex, mapq=q, truth={"cluster": len(clusters), "kind": kind, "mapq_rule": "outside-genes", "n_exons": len(ex)})
                        names.append(r.name)
            end = ex3[-1][1]
        elif kind == "small":
            for _ in range(rng.randint(5, 40)):
                s = start + rng.randint(0, 2000)
                add(s, s + rng.randint(200, 900))
            end = start + 3000
        else:
            raise ValueError(kind)
        clusters.append({"kind": kind, "start": start, "end": end, "reads": names})
        pos = end + rng.randint(3000, 5000)
        if pos > w.chrom_len("chr1") - 5000:
            break
    # labelled filtered categories
    filtered = []
    for i in range(6):
        r = Read("supp%03d" % i, "chr1", 3500 + 10 * i, [(0, 300)], w.seq_of("chr1", 3501 + 10 * i, 3800 + 10 * i), flag=2048, mapq=60,
                 truth={"filtered": "supplementary"})
        w.reads.append(r)
        filtered.append(r.name)
    for i in range(4):
        w.reads.append(Read("unm%03d" % i, None, -1, [], "ACGTACGTACGT", flag=4, mapq=0, truth={"filtered": "unmapped"}))
    # unmapped records that carry a position (legal SAM: placed next to a mate or by the aligner's output order; CIGAR '*'); fetch() returns them
    for i in range(2):
        w.reads.append(Read("unmplaced%03d" % i, "chr1", 3600 + 700 * i, [], "ACGTACGTACGT", flag=4, mapq=0, truth={"filtered": "unmapped"}))
    if annotated:
        # a few genes under the clusters so that reads are processed by the genic branch
        for ci, c in enumerate(clusters):
            if ci % 2 == 0 and c["end"] - c["start"] > 1500 and c["kind"] not in ("mapq_grid", "two_gene_bridge", "gene_chain_lowmapq"):
                g, _ = w.make_gene("G%d" % ci, "chr1", c["start"] + 50, "+", n_exons=3, n_iso=1, exon_len=(150, 250),
                                   intron_len=(200, 300))
                genes_under.append(g.id)
    return w, clusters


# ------------------------------------------------------------------ in-process driver
def _collect_worker(job):
    from vlib import repo_import
    repo_import.setup_path()
    d, high_memory, annotated, home = job
    ap = repo_import.mod("src.alignment_processor")
    import gffutils
    from pyfaidx import Fasta
    splits = []
    real_split = ap.AlignmentCollector.split_coverage_regions

    def split(genomic_region, alignment_storage):
        r = real_split(genomic_region, alignment_storage)
        splits.append({"region": list(genomic_region), "reads": alignment_storage.get_read_count(),
                       "bins": len([k for k, v in alignment_storage.coverage_dict.items() if v > 0]), "out": [list(x) for x in r]})
        return r
    ap.AlignmentCollector.split_coverage_regions = staticmethod(split)
    argv = ["-o", os.path.join(d, "inproc_%s" % ("hm" if high_memory else "lm")), "-d", "nanopore", "--bam", os.path.join(d, "r.bam"),
            "-r", os.path.join(d, "g.fa"), "-t", "1", "-p", "SMP", "--force"]
    if high_memory:
        argv.append("--high_memory")
    args = repo_import.fresh_args(argv, home)
    db = None
    if annotated:
        g2d = repo_import.mod("src.gtf2db")
        dbp = os.path.join(d, "inproc_%s.db" % ("hm" if high_memory else "lm"))
        if not os.path.exists(dbp):
            g2d.gtf2db(os.path.join(d, "a.gtf"), dbp, complete_db=True, check_gtf=False)
        db = gffutils.FeatureDB(dbp)
        args.genedb = dbp
    fa = Fasta(os.path.join(d, "g.fa"))
    res = {"regions": [], "splits": splits, "stats": {}, "error": None}
    try:
        for chrom in fa.keys():
            rec = fa[chrom]
            if high_memory:
                rec = str(rec)
            bam = pysam.AlignmentFile(os.path.join(d, "r.bam"), "rb", require_index=True)
            coll = ap.AlignmentCollector(chrom, [(bam, os.path.join(d, "r.bam"))], args, None, db, rec)
            for gene_info, storage in coll.process():
                res["regions"].append([(a.read_id, a.exons[0][0], a.exons[-1][1], tuple(a.genomic_region)) for a in storage])
            for k, v in coll.alignment_stat_counter.stats_dict.items():
                res["stats"][k.name] = res["stats"].get(k.name, 0) + v
    except Exception as e:
        import traceback
        res["error"] = traceback.format_exc()[-800:]
    finally:
        ap.AlignmentCollector.split_coverage_regions = staticmethod(real_split)
    return res


def expected_reads(w, reads=None, cut=None):
    """cut = (annotated, inconsistent cut-off, simple-alignment cut-off): applies to the reads of the 'mapq_grid' loci, whose kind is known."""
    exp = Counter()
    cats = Counter()
    for r in (w.reads if reads is None else reads):
        if r.flag & 4:
            cats["unaligned"] += 1
            continue
        if r.flag & 2048:
            cats["supplementary"] += 1
            continue
        if r.flag & 256:
            cats["secondary"] += 1
        else:
            cats["primary"] += 1
        rule = r.truth.get("mapq_rule")
        if rule and cut:
            annotated, inc, simple = cut
            if not annotated or rule == "outside-genes":
                if r.truth["n_exons"] <= 2 and r.mapq < simple:
                    continue
            elif rule == "inconsistent" and r.mapq < inc:
                continue
        exp[r.name] += 1
    return exp, cats


def judge(chk, desc, wit, w, clusters, reported_ids, kind_key, cut=None):
    """reported_ids: Counter of read ids (distinct records per id)."""
    exp, cats = expected_reads(w, cut=cut)
    missing = [n for n in exp if n not in reported_ids]
    extra = [n for n in reported_ids if n not in exp]
    cl_of = {}
    for ci, c in enumerate(clusters):
        for n in c["reads"]:
            cl_of[n] = c["kind"]
    truth_of = {r.name: r.truth for r in w.reads}
    low_ = [n for n in missing if truth_of.get(n, {}).get("class") == "gene-free-low-mapq-read-in-a-region-that-holds-a-gene"]
    if low_:
        # key of a recorded finding (known_findings.txt): only this mechanism, any other lost read is reported under its cluster kind
        chk.violation("reads-lost:gene-free-read-below-the-inconsistent-cut-off-in-a-region-that-holds-a-gene",
                      "%s: %d unspliced MAPQ-3 read(s) that overlap no annotated feature are not reported: the region of their cluster holds a gene "
                      "9 kb away, and there every read that is neither consistent nor ambiguous is dropped below --inconsistent_mapq_cutoff (5); in a "
                      "gene-free region the same read is reported (e.g. %s)" % (desc, len(low_), low_[:2]), wit)
        missing = [n for n in missing if n not in low_]
    if missing:
        by_kind = Counter(cl_of.get(n, "?") for n in missing)
        for k, cnt in by_kind.items():
            chk.violation("reads-lost:%s:%s" % (kind_key, k),
                          "%s: %d of %d expected reads are not reported (cluster kind %s; e.g. %s)" %
                          (desc, cnt, len(exp), k, [n for n in missing if cl_of.get(n, "?") == k][:3]), wit)
    if extra:
        chk.violation("unexpected-reads-reported:" + kind_key, "%s: %d reads reported that should have been filtered (e.g. %s)" %
                      (desc, len(extra), extra[:3]), wit)
    return len(exp)


def run(chk, scratch):
    thorough = chk.tier == "thorough"
    chk.rule = ("generated coverage profiles: >=1024-read pile-ups inside one and two 256-bp bins, dense blocks separated by thin valleys at random "
                "offsets relative to the bins, a valley followed by short reads lying only in the last bin, >32 kb sparse clusters, spliced reads bridging "
                "blocks, a gene over a coverage-1 stretch whose only bridging read also has a secondary alignment elsewhere, spliced reads that leave a two-isoform gene and name no isoform at all, small clusters, two clusters whose facing ends share one 256-bp bin (the second one split); genic reads of known kind (consistent, extra exon, two skipped exons, intronic) and gene-free 1/2/3-exon reads at MAPQ 0-6 with both MAPQ cut-offs at their defaults and set explicitly (0/0, 3/2, ...); supplementary and unmapped records as labelled filtered categories; x {BAM storage, in-memory storage} x "
                "{annotation-free, annotated}; in-process collector + CLI runs. non-trivial = distinct (cluster kind, #regions returned, storage, annotated) "
                "tuples where the cluster was split into >=2 regions or fell into the single-bin case")
    n_inproc = 40 if thorough else 6
    n_cli = 10 if thorough else 2
    kind_sets = [["pile1bin", "valleys", "small", "lowmapq_spliced"], ["valleys_tail", "long_sparse", "gene_valley", "lowmapq_spliced", "no_match_spliced", "two_gene_bridge"], ["pile2bins", "bridged", "valleys", "no_match_spliced", "neighbour_in_bin", "gene_chain_lowmapq"],
                 ["valleys_tail", "pile1bin", "neighbour_in_bin", "two_gene_bridge"], ["long_sparse", "valleys", "small", "two_gene_bridge"], ["bridged", "valleys_tail", "neighbour_in_bin", "gene_chain_lowmapq"]]
    jobs = []
    worlds = {}
    for i in range(n_inproc):
        seed = chk.seed * 1000 + i
        annotated = i % 3 == 2
        d = os.path.join(scratch, "ip%d" % i)
        w, clusters = coverage_world(seed, kind_sets[i % len(kind_sets)], annotated=annotated)
        pipeline.write_world(w, d)
        worlds[d] = (w, clusters, seed, annotated)
        for hm in (False, True):
            jobs.append((d, hm, annotated, os.path.join(d, "home_%s" % hm)))
    total_reads = 0
    split_clusters = 0
    multi_region_reads = 0
    with ProcessPoolExecutor(max_workers=12) as ex:
        for job, res in zip(jobs, ex.map(_collect_worker, jobs)):
            d, hm, annotated, _ = job
            w, clusters, seed, _a = worlds[d]
            storage = "in-memory" if hm else "bam"
            desc = "in-process collector, world %d, storage=%s, annotated=%s" % (seed, storage, annotated)
            wit = {"world_seed": seed, "kinds": [c["kind"] for c in clusters], "storage": storage, "annotated": annotated}
            if res["error"]:
                chk.violation("collector-exception:" + storage, "%s: %s" % (desc, res["error"][-400:]), wit)
                continue
            reported = Counter()
            recs = Counter()
            for reg in res["regions"]:
                for rid, s, e, gr in reg:
                    recs[(rid, s, e)] += 1
            for (rid, s, e), c in recs.items():
                reported[rid] += 1
            multi_region_reads += sum(1 for c in recs.values() if c > 1)
            n = judge(chk, desc, wit, w, clusters, reported, storage)
            chk.note(n=n)
            total_reads += n
            # split evidence
            for sp in res["splits"]:
                big = sp["reads"] >= 1024 or sp["region"][1] - sp["region"][0] + 1 >= 32768
                if not big:
                    continue
                kind = "?"
                for c in clusters:
                    if c["start"] - 300 <= sp["region"][0] + 1 <= c["end"] + 300:
                        kind = c["kind"]
                nreg = len(sp["out"])
                if nreg != 1 or sp["bins"] <= 2:
                    split_clusters += 1
                    chk.nontrivial.add((kind, min(nreg, 6), storage, annotated))
                if len(chk.samples) < 5:
                    chk.sample({"cluster_kind": kind, "region": sp["region"], "reads": sp["reads"], "bins": sp["bins"], "regions_returned": sp["out"][:6]})
                # regions must lie inside the cluster and be ordered
                for a, b in sp["out"]:
                    if a > b:
                        chk.violation("split-region-empty:" + kind, "%s: split_coverage_regions returned (%d,%d) for %s" % (desc, a, b, sp["region"]), wit)
            # log statistics
            exp, cats = expected_reads(w)
            for cat in ("primary", "secondary", "supplementary"):
                if res["stats"].get(cat, 0) != cats.get(cat, 0):
                    chk.violation("alignment-statistics:" + cat, "%s: collector counted %d %s records, the BAM has %d" %
                                  (desc, res["stats"].get(cat, 0), cat, cats.get(cat, 0)), wit)
    # CLI runs
    def cli(i):
        seed = chk.seed * 1000 + 500 + i
        annotated = i % 2 == 0
        d = os.path.join(scratch, "cli%d" % i)
        w, clusters = coverage_world(seed, kind_sets[(i + 1) % len(kind_sets)], annotated=annotated)
        pipeline.write_world(w, d)
        extra = ["--high_memory"] if i % 4 >= 2 else []
        if i % 2 == 1:
            extra = extra + ["--no_secondary"]      # secondary records ignored: an alignment seen from two regions is still reported once
        bams = None
        if i % 2 == 1 or i % 4 == 2:
            # the records in two BAM files of ONE experiment: the first file holds the reads of the first cluster only (it has no alignment in
            # any other region), the second file everything else
            first = set(clusters[0]["reads"]) if clusters else set()
            bams = [os.path.join(d, "part0.bam"), os.path.join(d, "part1.bam")]
            w.write_bam(bams[0], reads=[r_ for r_ in w.reads if r_.name in first])
            w.write_bam(bams[1], reads=[r_ for r_ in w.reads if r_.name not in first])
            extra = extra + ["--read_group", "file_name"]
        r = pipeline.run(d, os.path.join(d, "out"), threads=2, annotated=annotated, bam=bams, extra=extra + ["--no_model_construction"])
        return i, d, w, clusters, seed, annotated, extra + (["two BAM files"] if bams else []), r
    for i, d, w, clusters, seed, annotated, extra, r in runner.parallel(cli, list(range(n_cli)), workers=4):
        desc = "CLI run, world %d, annotated=%s %s" % (seed, annotated, " ".join(extra))
        wit = {"world_seed": seed, "kinds": [c["kind"] for c in clusters], "annotated": annotated, "extra": extra}
        if r["rc"] is None:
            chk.inconclusive.append("watchdog expired: " + desc)
            continue
        if r["rc"] != 0:
            chk.violation("run-failed", "%s: %s" % (desc, pipeline.fail_text(r)), wit)
            continue
        o = pipeline.Outputs(os.path.join(d, "out"))
        bed = o.bed()
        bed_ids = Counter(b.name for b in bed)
        n = judge(chk, desc + " [corrected_reads.bed]", wit, w, clusters, bed_ids, "cli-bed")
        chk.note(n=n)
        total_reads += n
        dup = [k for k, c in Counter(b.raw for b in bed).items() if c > 1]
        two_gene = {r_.name for r_ in w.reads if r_.truth.get("class") == "alignment-over-two-genes"}
        dup_known = [k for k in dup if k.split("\t")[3] in two_gene]
        dup = [k for k in dup if k not in dup_known]
        if dup:
            chk.violation("identical-records:bed", "%s: %d BED records occur more than once, e.g. %s" % (desc, len(dup), dup[0][:120]), wit)
        if dup_known:
            chk.violation("identical-records:bed:alignment-over-two-genes-seen-from-two-regions", "%s: the alignment spliced across two genes 49 kb apart is "
                          "printed twice: %s" % (desc, dup_known[0][:160]), wit)
        exp, cats = expected_reads(w)
        # (reads lost by the mechanism of the recorded finding are reported under its key by judge(), not once more as a count)
        lost_known_ = [r_.name for r_ in w.reads if r_.truth.get("class") == "gene-free-low-mapq-read-in-a-region-that-holds-a-gene" and r_.name in exp and r_.name not in bed_ids]
        if sum(1 for _ in bed_ids) != len(exp) - len(lost_known_) and not any(v[0].startswith("reads-lost") for v in chk.violations):
            chk.violation("distinct-read-count:bed", "%s: %d distinct reads in BED, %d expected" % (desc, len(bed_ids), len(exp)), wit)
        if annotated:
            asg = o.assignments()
            ids = Counter(a.read_id for a in asg)
            judge(chk, desc + " [read_assignments.tsv]", wit, w, clusters, ids, "cli-tsv")
            dup = [k for k, c in Counter(a.raw for a in asg).items() if c > 1]
            if dup:
                chk.violation("identical-records:tsv", "%s: %d TSV records occur more than once, e.g. %s" % (desc, len(dup), dup[0][:120]), wit)
        log = o.log()
        for cat, name in (("primary", "primary"), ("secondary", "secondary"), ("supplementary", "supplementary"), ("unaligned", "unaligned")):
            m = re.search(r"- %s: (\d+)" % name, log)
            got = int(m.group(1)) if m else 0
            if got != cats.get(cat, 0):
                chk.violation("log-statistics:" + cat, "%s: log says %s: %d, the BAM has %d" % (desc, name, got, cats.get(cat, 0)), wit)
        if chk.violations and not getattr(chk, "witness_files", None):
            chk.witness_files = [os.path.join(d, f) for f in ("g.fa", "a.gtf", "r.bam", "r.bam.bai")]
    # the two MAPQ cut-offs at their defaults and set explicitly (0 = keep everything), with and without an annotation
    def cutoffs(job):
        i, annotated, inc, simple, hm = job
        seed = chk.seed * 1000 + 900 + i % 2
        d = os.path.join(scratch, "cut%d" % i)
        w, clusters = coverage_world(seed, ["mapq_grid", "small", "mapq_grid"], annotated=annotated)
        pipeline.write_world(w, d)
        extra = (["--high_memory"] if hm else []) + (["--inconsistent_mapq_cutoff", str(inc)] if inc is not None else []) + \
                (["--simple_alignments_mapq_cutoff", str(simple)] if simple is not None else [])
        r = pipeline.run(d, os.path.join(d, "out"), threads=1 + i % 2, annotated=annotated, extra=extra + ["--no_model_construction"])
        return job, d, w, clusters, seed, extra, r
    cjobs = [(0, True, None, None, False), (1, True, 0, 0, False), (2, True, 3, 2, True), (3, False, None, 0, False)]
    if thorough:
        cjobs += [(4, True, 0, 0, True), (5, False, None, 2, True), (6, False, None, None, False), (7, True, 0, 3, False), (8, True, 7, 0, True)]
    grid_reads = 0
    for job, d, w, clusters, seed, extra, r in runner.parallel(cutoffs, cjobs, workers=4):
        i, annotated, inc, simple, hm = job
        desc = "CLI run, MAPQ grid world %d, annotated=%s %s" % (seed, annotated, " ".join(extra))
        wit = {"world_seed": seed, "kinds": [c["kind"] for c in clusters], "annotated": annotated, "extra": extra}
        if r["rc"] is None:
            chk.inconclusive.append("watchdog expired: " + desc)
            continue
        if r["rc"] != 0:
            chk.violation("run-failed", "%s: %s" % (desc, pipeline.fail_text(r)), wit)
            continue
        cut = (annotated, 5 if inc is None else inc, 1 if simple is None else simple)
        o = pipeline.Outputs(os.path.join(d, "out"))
        key = "mapq-cutoffs:%s:%s" % ("annotated" if annotated else "annotation-free", "defaults" if inc is None and simple is None else "explicit")
        n = judge(chk, desc + " [corrected_reads.bed]", wit, w, clusters, Counter(b.name for b in o.bed()), key + ":bed", cut=cut)
        chk.note(n=n)
        grid_reads += sum(1 for r_ in w.reads if r_.truth.get("mapq_rule"))
        chk.nontrivial.add(("mapq-cutoffs", annotated, inc, simple, hm))
        if annotated:
            judge(chk, desc + " [read_assignments.tsv]", wit, w, clusters, Counter(a.read_id for a in o.assignments()), key + ":tsv", cut=cut)
        if chk.violations and not getattr(chk, "witness_files", None):
            chk.witness_files = [os.path.join(d, f) for f in ("g.fa", "a.gtf", "r.bam", "r.bam.bai")]
    chk.extra["reads_of_known_kind_at_graded_mapq_judged"] = grid_reads
    # one run over several experiments: every experiment's statistics and outputs are about its own files only
    def multi(i):
        seed = chk.seed * 1000 + 800 + i
        d = os.path.join(scratch, "multi%d" % i)
        w, clusters = coverage_world(seed, kind_sets[(i + 2) % len(kind_sets)], annotated=True)
        pipeline.write_world(w, d)
        names = ["EXA", "EXB", "EXC"]
        # unequal shares; the unmapped records all go to the first two experiments
        lst, per = pipeline.write_experiments(w, d, names, lambda e, k, r: (k % 6 in ((0, 1, 2), (3, 4), (5,))[e]) if not r.flag & 4 else k % 2 == e)
        extra = ["--high_memory"] if i % 2 else []
        r = pipeline.run(d, os.path.join(d, "out"), threads=1 + i % 2, bam_list=lst, extra=extra + ["--no_model_construction"])
        return i, d, w, names, per, seed, extra, r
    experiments_judged = 0
    for i, d, w, names, per, seed, extra, r in runner.parallel(multi, list(range(3 if thorough else 1)), workers=3):
        desc = "CLI run over 3 experiments, world %d %s" % (seed, " ".join(extra))
        wit = {"world_seed": seed, "experiments": names, "extra": extra}
        if r["rc"] is None:
            chk.inconclusive.append("watchdog expired: " + desc)
            continue
        if r["rc"] != 0:
            chk.violation("run-failed", "%s: %s" % (desc, pipeline.fail_text(r)), wit)
            continue
        log = pipeline.Outputs(os.path.join(d, "out")).log()
        blocks = log.split("overall alignment statistics")[1:]
        if len(blocks) != len(names):
            chk.inconclusive.append("%s: %d statistics blocks in the log for %d experiments" % (desc, len(blocks), len(names)))
            continue
        for name, block in zip(names, blocks):
            exp, cats = expected_reads(w, per[name])
            experiments_judged += 1
            for cat in ("primary", "secondary", "supplementary", "unaligned"):
                m = re.search(r"- %s: (\d+)" % cat, block[:600])
                got = int(m.group(1)) if m else 0
                chk.note()
                if got != cats.get(cat, 0):
                    chk.violation("log-statistics:%s:multi-experiment" % cat, "%s: experiment %s: log says %s: %d, its BAM has %d" %
                                  (desc, name, cat, got, cats.get(cat, 0)), wit)
            o = pipeline.Outputs(os.path.join(d, "out"), prefix=name)
            ids = Counter(b.name for b in o.bed())
            missing = [n for n in exp if n not in ids]
            foreign = [n for n in ids if n not in exp]
            chk.note(n=len(exp))
            if missing:
                chk.violation("reads-lost:multi-experiment", "%s: experiment %s: %d of its %d reads are not in its corrected_reads.bed, e.g. %s" %
                              (desc, name, len(missing), len(exp), missing[:3]), wit)
            if foreign:
                chk.violation("foreign-reads:multi-experiment", "%s: experiment %s: %d reads of other experiments in its corrected_reads.bed, e.g. %s" %
                              (desc, name, len(foreign), foreign[:3]), wit)
    chk.extra["experiments_of_multi_experiment_runs_judged"] = experiments_judged
    chk.inconclusive_if(experiments_judged == 0, "no multi-experiment run judged")
    chk.extra.update({"reads_accounted": total_reads, "clusters_split_or_single_bin": split_clusters,
                      "records_seen_in_more_than_one_region": multi_region_reads})
    chk.assumptions = ["expected set = mapped, non-supplementary records (MAPQ 60, and MAPQ 0 / 1 for alignments with 3 or more exons, MAPQ 1 for shorter ones); filtered categories are labelled by the generator",
                       "read ids are unique per alignment in these workloads, so distinct ids = distinct reads"]
    chk.inconclusive_if(split_clusters == 0, "no cluster was split")
    chk.min_nontrivial = 4
