"""C03 — output annotations are well-formed and reproduce reference transcripts verbatim.

Monitor: offline checker over *.transcript_models.gtf and *.extended_annotation.gtf of CLI runs versus the input GTF and the
FASTA index. Oracle: the structural rules of the statement (this file).
"""
import os
import shutil
from collections import defaultdict

from vlib import runner, pipeline, world, world2, parse

LEVEL = "exploration"
STRATEGIES = ["reliable", "default_pacbio", "sensitive_pacbio", "fl_pacbio", "default_ont", "sensitive_ont", "all", "assembly"]


def noisy_world(seed, n_chroms=3):
    w = world2.rich_world(seed, n_chroms=n_chroms, genes_per_chrom=3, reads_per_t=6, hidden_cov=7, unmapped=1, extra_len=70000,
                          zoo=tuple(z for z in world2.ZOO_ALL if z not in ("intronic", "apa", "mixed_strand_gene")))   # a reference gene with transcripts on both strands cannot have a gene record on "the" strand of its transcripts
    rng = w.rng
    main_chroms = [c for c in w.chrom_order if c not in ("chrU", "chrE", "chrN", "chrP", "chrQ", "chrS")]     # the odd sequences of the zoo stay as they are
    # genes whose hidden isoform is a new combination of annotated introns (.nic)
    for ci, chrom in enumerate(main_chroms):
        last = max([g.end for g in w.genes if g.chrom == chrom] + [1000])
        if last + 12000 < w.chrom_len(chrom):
            g, _ = world2.make_nic_gene(w, "N%d" % (ci + 1), chrom, last + 2500, rng.choice("+-"))
            for t in g.transcripts:
                for _ in range(5):
                    w.read_from_transcript(t, mode="full", jitter=2, polya=True, flag=rng.choice((0, 16)))
            for t in g.hidden:
                for _ in range(8):
                    w.read_from_transcript(t, mode="full", jitter=0, polya=True, flag=rng.choice((0, 16)))
    # genes whose reads form two separate clusters (same reference isoform seen from two regions)
    for ci, chrom in enumerate(main_chroms):
        last = max([g.end for g in w.genes if g.chrom == chrom] + [1000])
        if last + 16000 < w.chrom_len(chrom):
            world2.two_cluster_gene(w, "K%d" % (ci + 1), chrom, last + 3000, rng.choice("+-"), n_iso=1 + ci % 2)
    # annotated genes hosting unannotated same-strand loci inside a long intron; gene ids in several styles (lower-case symbols sort
    # after the generated 'novel_gene_...' ids, upper-case ones before)
    for ci, chrom in enumerate(main_chroms):
        last = max([g.end for g in w.genes if g.chrom == chrom] + [1000]) + 3000
        for k, gid in enumerate(("slc25a%d" % (ci + 1), "ABCB%d" % (ci + 1), "zgc:%d" % (1100 + ci))[:2 + ci % 2]):
            if last + 8000 < w.chrom_len(chrom):
                _, end = world2.intronic_novel_loci(w, gid, chrom, last, "+-"[(k + ci) % 2])
                last = end + 3000
    # an annotated three-exon gene with two unannotated three-exon loci of the OTHER strand inside its two introns (each spans about a quarter
    # of the host; three genes in one region): genes of opposite strands are never joined
    from vlib.world import Gene as _G, Transcript as _T
    for ci, chrom in enumerate(main_chroms[:2]):
        last = max([g.end for g in w.genes if g.chrom == chrom] + [1000]) + 3000
        if last + 9000 < w.chrom_len(chrom):
            hs = "+-"[ci % 2]
            os_ = "-" if hs == "+" else "+"
            hx = [(last, last + 400), (last + 3400, last + 3700), (last + 6700, last + 7200)]
            host = _G("ASH%d" % (ci + 1), chrom, hs)
            host.transcripts.append(_T(host.id + ".t1", host.id, chrom, hs, hx, True, "host-of-antisense-loci"))
            for intr in host.transcripts[0].introns:
                w.plant_sites(chrom, intr, hs)
            w.genes.append(host)
            for _ in range(10):
                w.read_from_transcript(host.transcripts[0], mode="full", jitter=0, polya=True, flag=0 if hs == "+" else 16)
            for k, base in enumerate((last + 800, last + 4100)):
                ax = [(base, base + 300), (base + 800, base + 1050), (base + 1600, base + 2000)]
                ag = _G("ASN%d_%d" % (ci + 1, k + 1), chrom, os_)
                ag.hidden.append(_T(ag.id + ".h1", ag.id, chrom, os_, ax, False, "antisense-novel-in-intron"))
                for intr in ag.hidden[0].introns:
                    w.plant_sites(chrom, intr, os_)
                w.genes.append(ag)
                for _ in range(12):
                    w.read_from_transcript(ag.hidden[0], mode="full", jitter=0, polya=True, flag=0 if os_ == "+" else 16)
    # a gene whose two annotated isoforms lie 3 kb apart (two separate read clusters); the reads of the second cluster belong to an unannotated
    # isoform that ends 300 bp beyond the annotated end of the gene: the gene record must contain it in both annotation files
    for ci, chrom in enumerate(main_chroms[:2]):
        last = max([g.end for g in w.genes if g.chrom == chrom] + [1000]) + 3000
        if last + 9000 < w.chrom_len(chrom):
            st_ = "+-"[ci % 2]
            t1x = [(last, last + 200), (last + 500, last + 700), (last + 1000, last + 1200)]
            t2x = [(last + 5000, last + 5200), (last + 5500, last + 5700), (last + 6000, last + 6200)]
            nvx = [(last + 5000, last + 5200), (last + 5500, last + 5700), (last + 6100, last + 6500)]
            if st_ == "-":
                span_ = 6500
                t1x, t2x, nvx = [sorted((2 * last + span_ - b, 2 * last + span_ - a) for a, b in x) for x in (t1x, t2x, nvx)]
            g2 = _G("TWR%d" % (ci + 1), chrom, st_)
            g2.transcripts.append(_T(g2.id + ".t1", g2.id, chrom, st_, t1x, True, "two-region-gene"))
            g2.transcripts.append(_T(g2.id + ".t2", g2.id, chrom, st_, t2x, True, "two-region-gene"))
            g2.hidden.append(_T(g2.id + ".h1", g2.id, chrom, st_, nvx, False, "novel-beyond-the-gene-end-in-the-second-region"))
            for t_ in g2.transcripts + g2.hidden:
                for intr in t_.introns:
                    w.plant_sites(chrom, intr, st_)
            w.genes.append(g2)
            for _ in range(10):
                w.read_from_transcript(g2.transcripts[0], mode="full", jitter=0, polya=True, flag=0 if st_ == "+" else 16)
                w.read_from_transcript(g2.hidden[0], mode="full", jitter=0, polya=True, flag=0 if st_ == "+" else 16)
    # reads with a reference intron chain that end at an alternative polyA site far downstream of the annotated end
    for ci, chrom in enumerate(main_chroms):
        last = max([g.end for g in w.genes if g.chrom == chrom] + [1000]) + 3000
        if last + 9000 < w.chrom_len(chrom):
            world2.alt_polya_locus(w, "APA%d" % (ci + 1), chrom, last, "+-"[ci % 2], ext=(1200, 700, 2000)[ci % 3])
    # noise: reads with shifted junctions beyond tolerance, extended ends (novel models reaching beyond their gene)
    for g in list(w.genes):
        if g.chrom == "chrE":
            continue              # annotated, listed in the BAM header and without a single alignment: its reference transcripts still belong into the extended annotation
        for t in g.hidden[:1]:
            if t.kind == "no-strand-evidence":
                continue          # this locus must stay without tails
            ex = list(t.exons)
            for _ in range(4):
                ext = [(ex[0][0] - rng.randint(150, 400), ex[0][1])] + ex[1:-1] + [(ex[-1][0], ex[-1][1] + rng.randint(150, 400))]
                if ext[0][0] > 50 and ext[-1][1] < w.chrom_len(t.chrom) - 50:
                    w.make_read(t.chrom, ext, polya=30 if t.strand == "+" else 0, polyt=30 if t.strand == "-" else 0,
                                truth={"src": t.id, "class": "extended-ends"})
        for t in g.transcripts[:1]:
            if len(t.exons) >= 3 and t.kind != "two-cluster":
                for _ in range(2):
                    ex = list(t.exons)
                    k = rng.randrange(len(ex) - 1)
                    sh = rng.choice((-17, 15, 23))
                    if ex[k][1] - ex[k][0] < 60 or ex[k + 1][0] - ex[k][1] < 60:
                        continue
                    ex[k] = (ex[k][0], ex[k][1] + sh)
                    w.make_read(t.chrom, ex, indels=1, mismatches=2, truth={"src": t.id, "class": "noisy-junction"})
    # unspliced reads aligned up to the very LAST base of a sequence (a short contig, a linearised circular genome) that continue with a
    # few unaligned non-A bases and a tail, both soft-clipped; and their mirror image at the very first base (clipped bases and a T head)
    for ci, chrom in enumerate(main_chroms[:2]):
        clen = w.chrom_len(chrom)
        if max([g.end for g in w.genes if g.chrom == chrom] + [1000]) + 6000 < clen:
            for k in range(8):
                r_ = w.make_read(chrom, [(clen - rng.randint(700, 900), clen)], truth={"class": "unspliced-up-to-the-last-base"})
                r_.cigar.append((4, 30))
                r_.seq += "CGTCG" + "A" * 25
        if min([g.start for g in w.genes if g.chrom == chrom] + [clen]) > 4000 and ci == 1:
            for k in range(8):
                r_ = w.make_read(chrom, [(1, rng.randint(700, 900))], truth={"class": "unspliced-from-the-first-base"})
                r_.cigar.insert(0, (4, 30))
                r_.seq = "T" * 25 + "CGACG" + r_.seq
    return w


def main_chroms_of(w):
    return [c for c in w.chrom_order if c not in ("chrU", "chrE", "chrN", "chrP", "chrQ", "chrS")]


def check_gtf(chk, gm, fname, fai, desc, wit):
    n = 0
    for tid, t in gm.transcripts.items():
        n += 1
        chk.note()
        ex = t["exons"]
        recs = gm.transcript_recs.get(tid, [])
        if len(t["chrs"]) != 1 or len(t["strands"]) != 1:
            chk.violation("transcript-on-several-chromosomes-or-strands:" + fname, "%s: %s exons on %s / %s" % (desc, tid, t["chrs"], t["strands"]), wit)
            continue
        sx = sorted(ex)
        if not ex:
            chk.violation("transcript-without-exons:" + fname, "%s: %s" % (desc, tid), wit)
            continue
        if ex != sx and ex != sx[::-1]:
            chk.violation("exons-unsorted:" + fname, "%s: %s exons neither ascending nor descending: %s" % (desc, tid, ex[:4]), wit)
        clen = fai.get(t["chr"], 0)
        for s, e in sx:
            if not (1 <= s <= e <= clen):
                chk.violation("exon-coordinates-invalid:" + fname, "%s: %s exon (%d,%d), chromosome length %d" % (desc, tid, s, e, clen), wit)
        for i in range(len(sx) - 1):
            if sx[i][1] >= sx[i + 1][0]:
                chk.violation("exons-overlap:" + fname, "%s: %s exons %s and %s" % (desc, tid, sx[i], sx[i + 1]), wit)
        if len(recs) != 1:
            chk.violation("transcript-record-count:" + fname, "%s: %s has %d transcript records" % (desc, tid, len(recs)), wit)
            continue
        r = recs[0]
        if (r.start, r.end) != (sx[0][0], sx[-1][1]):
            chk.violation("transcript-record-span:" + fname, "%s: %s record %d-%d, exons span %d-%d" % (desc, tid, r.start, r.end, sx[0][0], sx[-1][1]), wit)
        if r.chr != t["chr"] or r.strand != t["strand"]:
            chk.violation("transcript-record-locus:" + fname, "%s: %s record on %s%s, exons on %s%s" % (desc, tid, r.chr, r.strand, t["chr"], t["strand"]), wit)
        gid = t["gene"]
        grecs = gm.gene_recs.get(gid, [])
        if len(grecs) != 1:
            chk.violation("gene-record-count:" + fname, "%s: gene %s of %s has %d gene records" % (desc, gid, tid, len(grecs)), wit)
            continue
        g = grecs[0]
        if g.chr != t["chr"]:
            chk.violation("gene-record-chromosome:" + fname, "%s: gene %s on %s, transcript %s on %s" % (desc, gid, g.chr, tid, t["chr"]), wit)
        if g.strand != t["strand"]:
            chk.violation("gene-record-strand:" + fname, "%s: gene %s strand %s, transcript %s strand %s" % (desc, gid, g.strand, tid, t["strand"]), wit)
        if not (g.start <= sx[0][0] and sx[-1][1] <= g.end):
            chk.violation("gene-record-does-not-contain-transcript:" + fname, "%s: gene %s %d-%d, transcript %s %d-%d" %
                          (desc, gid, g.start, g.end, tid, sx[0][0], sx[-1][1]), wit)
    for tid in gm.transcript_recs:
        if tid not in gm.transcripts:
            chk.violation("transcript-without-exons:" + fname, "%s: transcript record %s has no exon records" % (desc, tid), wit)
    for gid, recs in gm.gene_recs.items():
        if len(recs) != 1:
            chk.violation("gene-record-count:" + fname, "%s: gene %s has %d gene records" % (desc, gid, len(recs)), wit)
    return n


def run(chk, scratch):
    thorough = chk.tier == "thorough"
    chk.rule = ("CLI runs with and without annotation over model-construction strategies x data types on noisy multi-chromosome worlds (hidden isoforms, "
                "reads extending beyond genes, shifted junctions, multi-mappers, references that are partly IsoQuant products (consecutive reserved id numbers), unannotated loci inside long introns of genes with lower-case / upper-case ids); every transcript/gene of both output GTFs judged against the structural rules, "
                "reference ids against the input GTF, extended annotation against reference + novel models. non-trivial = distinct (exon count, known/nic/nnic, "
                "strand, file) tuples")
    jobs = []
    dts = ["nanopore", "pacbio_ccs", "assembly"]
    if thorough:
        for si in range(3):
            for k, st in enumerate(STRATEGIES):
                for dt in dts:
                    jobs.append((chk.seed * 100 + si, st, dt, True))
            for k, st in enumerate(STRATEGIES[::2]):
                jobs.append((chk.seed * 100 + si, st, dts[k % 3], False))
    else:
        jobs = [(chk.seed * 100, "default_ont", "nanopore", True), (chk.seed * 100, "sensitive_pacbio", "pacbio_ccs", True),
                (chk.seed * 100 + 1, "all", "assembly", True), (chk.seed * 100 + 1, "sensitive_ont", "nanopore", False),
                (chk.seed * 100 + 2, "fl_pacbio", "pacbio_ccs", True), (chk.seed * 100 + 2, "all", "nanopore", False),
                (chk.seed * 100 + 3, "reliable", "nanopore", True), (chk.seed * 100 + 3, "assembly", "assembly", True)]
    # a locus processed in several regions (seed >= 9000 selects the split-locus world)
    for k in range(3 if thorough else 1):
        jobs.append((9000 + chk.seed * 10 + k, ("sensitive_ont", "all", "default_pacbio")[k], ("nanopore", "assembly", "pacbio_ccs")[k], True))
    if thorough:
        jobs.append((9000 + chk.seed * 10, "sensitive_ont", "nanopore", False))
    # one more annotated run per tier that is killed right after its first chromosome was marked as processed and then resumed: the
    # statement speaks about the output annotations of every run that finishes
    jobs = [j + (False,) for j in jobs]
    jobs.append(jobs[0][:4] + (True,))
    # ... and one run WITHOUT --complete_genedb on an annotation in which every third gene has exon records only, started after a run WITH the
    # option on the same file under the same HOME (whose database, built without inference, lacks those genes)
    jobs.append(jobs[0][:4] + ("after-complete-run",))
    worlds = {}
    for seed in sorted(set(j[0] for j in jobs)):
        d = os.path.join(scratch, "w%d" % seed)
        w = world2.split_locus_world(seed) if seed >= 9000 else noisy_world(seed)
        if seed % 2 == 1 and seed < 9000:
            world2.strip_tails(w)          # polyA-trimmed data: no polyA requirement, ends defined by read starts/ends only
        # even seeds: the reference is partly an IsoQuant product (extended annotation of an earlier run fed back): runs of CONSECUTIVE
        # transcriptN.<chr>.nnic / novel_gene_<chr>_N numbers are reserved on two chromosomes
        id_map = {}
        if seed % 2 == 0 and seed < 9000:
            for chrom in main_chroms_of(w)[:2]:
                n = 1
                for g in w.genes:
                    if g.chrom != chrom or not g.transcripts:
                        continue
                    n += 1
                    if len(id_map) % 3 == 0:
                        id_map[g.id] = "novel_gene_%s_%d" % (chrom, n)
                    for t in g.transcripts:
                        n += 1
                        id_map[t.id] = "transcript%d.%s.%s" % (n, chrom, "nnic" if n % 3 else "nic")
        pipeline.write_world(w, d, id_map=id_map)
        w.write_gtf(os.path.join(d, "partial.gtf"), id_map=id_map, no_meta_genes={g.id for i_, g in enumerate(w.genes) if g.transcripts and i_ % 3 == 0})
        worlds[seed] = (d, w, id_map)

    def one(job):
        seed, st, dt, annotated, resumed = job
        d, w, _ = worlds[seed]
        out = os.path.join(d, "out_%s_%s_%s%s" % (st, dt, annotated, "_resumed" if resumed else ""))
        ev = out + "_ev"
        # every other job switches the polyA requirement off, so that loci seen from several regions without polyA evidence also yield models
        pr = ["--polya_requirement", "never"] if (seed + len(st) + len(dt)) % 2 == 0 else []
        if annotated and len(st) % 2 == 1:
            pr = pr + ["--sqanti_output"]      # the SQANTI-like table is computed between the two annotation dumps of a chromosome
        if resumed == "after-complete-run":
            out = os.path.join(d, "out_after_complete")
            base = ["-d", dt, "-r", os.path.join(d, "g.fa"), "--bam", os.path.join(d, "r.bam"), "-g", os.path.join(d, "partial.gtf"), "-t", "2", "-p", pipeline.PREFIX,
                    "--no_gzip", "--force", "--model_construction_strategy", st]
            ra = runner.run_isoquant(["-o", out + "_first", "--complete_genedb"] + base, out + "_home")
            r = runner.run_isoquant(["-o", out] + base, out + "_home")
            r["n_split"] = 0
            if ra["rc"] != 0:
                r = dict(r, rc=None)
            return job, out, r
        if resumed:
            r1 = pipeline.run(d, out, data_type=dt, threads=1, annotated=annotated, home=out + "_home",
                              extra=["--model_construction_strategy", st, "--report_novel_unspliced", "true"] + pr, mon=["crash"],
                              cfg={"crash_root": out, "crash_path": "_processed", "crash_path_k": 1, "crash_after": True}, events=ev)
            r = runner.run_isoquant(["--resume", "-o", out], out + "_home") if r1["rc"] == 137 else dict(r1, rc=None)
            r["n_split"] = 0
            r["killed"] = r1["rc"] == 137
            return job, out, r
        r = pipeline.run(d, out, data_type=dt, threads=1 + (seed + len(st)) % 2, annotated=annotated, home=out + "_home",
                         extra=["--model_construction_strategy", st, "--report_novel_unspliced", "true"] + pr, mon=["split"], events=ev)
        n_split = sum(1 for e in runner.load_events(ev) if e["k"] == "split" and len(e["out"]) > 1)
        r["n_split"] = n_split
        return job, out, r
    total = 0
    novel_total = 0
    for job, out, r in runner.parallel(one, jobs, workers=8):
        seed, st, dt, annotated, resumed = job
        d, w, id_map = worlds[seed]
        desc = "world=%d strategy=%s data_type=%s annotated=%s%s" % (seed, st, dt, annotated, " [killed after the first chromosome was marked as processed, resumed]" if resumed else "")
        wit = {"world_seed": seed, "strategy": st, "data_type": dt, "annotated": annotated, "killed_and_resumed": resumed}
        if resumed == "after-complete-run":
            desc = "world=%d strategy=%s data_type=%s annotation with exon-only genes, no --complete_genedb, after a --complete_genedb run under the same HOME" % (seed, st, dt)
            chk.count("runs_after_a_complete_genedb_run_judged")
        elif resumed:
            if not r.get("killed"):
                chk.inconclusive.append("the run to be killed and resumed was not killed: " + desc)
                continue
            chk.count("killed_and_resumed_runs_judged")
        if r["rc"] is None:
            chk.inconclusive.append("watchdog expired: " + desc)
            continue
        if r["rc"] != 0:
            chk.violation("run-failed", "%s: %s" % (desc, pipeline.fail_text(r)), wit)
            continue
        o = pipeline.Outputs(out)
        chk.count("clusters_processed_in_several_regions", r.get("n_split", 0))
        fai = parse.read_fai(os.path.join(d, "g.fa.fai"))
        models = o.models()
        total += check_gtf(chk, models, "transcript_models.gtf", fai, desc, wit)
        ref = {id_map.get(t.id, t.id): t for t in w.all_transcripts()} if annotated else {}
        for tid, t in models.transcripts.items():
            kind = "known" if tid in ref else ("nic" if tid.endswith(".nic") else "nnic" if tid.endswith(".nnic") else "other")
            chk.nontrivial.add((min(len(t["exons"]), 8), kind, t["strand"], "models"))
            if tid in ref:
                rt = ref[tid]
                if (t["chr"], t["strand"], tuple(sorted(t["exons"])), t["gene"]) != (rt.chrom, rt.strand, tuple(rt.exons), id_map.get(rt.gene_id, rt.gene_id)):
                    chk.violation("reference-transcript-altered:transcript_models.gtf",
                                  "%s: %s printed as %s%s %s gene %s, reference %s%s %s gene %s" %
                                  (desc, tid, t["chr"], t["strand"], sorted(t["exons"])[:3], t["gene"], rt.chrom, rt.strand, rt.exons[:3], id_map.get(rt.gene_id, rt.gene_id)), wit)
            else:
                novel_total += 1
        if annotated:
            ext = o.extended()
            total += check_gtf(chk, ext, "extended_annotation.gtf", fai, desc, wit)
            for tid, rt in ref.items():
                t = ext.transcripts.get(tid)
                if t is None:
                    chk.violation("reference-transcript-missing:extended_annotation.gtf", "%s: %s absent" % (desc, tid), wit)
                    continue
                if (t["chr"], t["strand"], tuple(sorted(t["exons"])), t["gene"]) != (rt.chrom, rt.strand, tuple(rt.exons), id_map.get(rt.gene_id, rt.gene_id)):
                    chk.violation("reference-transcript-altered:extended_annotation.gtf", "%s: %s printed as %s%s %s" %
                                  (desc, tid, t["chr"], t["strand"], sorted(t["exons"])[:3]), wit)
            novel_models = {tid: t for tid, t in models.transcripts.items() if tid not in ref}
            novel_ext = {tid: t for tid, t in ext.transcripts.items() if tid not in ref}
            for tid in set(novel_models) | set(novel_ext):
                a, b = novel_models.get(tid), novel_ext.get(tid)
                if a is None or b is None:
                    chk.violation("novel-transcript-set-differs", "%s: %s present only in %s" %
                                  (desc, tid, "extended_annotation.gtf" if a is None else "transcript_models.gtf"), wit)
                elif (a["chr"], a["strand"], sorted(a["exons"]), a["gene"]) != (b["chr"], b["strand"], sorted(b["exons"]), b["gene"]):
                    chk.violation("novel-transcript-differs-between-files", "%s: %s" % (desc, tid), wit)
        else:
            if o.has("extended_annotation.gtf"):
                pass
        chk.sample({"run": desc, "transcripts_in_models_gtf": len(models.transcripts), "novel": sum(1 for x in models.transcripts if x not in ref)}, limit=4)
        if chk.violations and not getattr(chk, "witness_files", None):
            chk.witness_files = [os.path.join(d, f) for f in ("g.fa", "a.gtf", "r.bam", "r.bam.bai")]
        shutil.rmtree(out, ignore_errors=True)
    chk.extra.update({"transcripts_validated": total, "novel_transcripts_seen": novel_total})
    chk.assumptions = ["only the structural rules of the statement are judged; attribute content and order are not"]
    chk.inconclusive_if(novel_total == 0, "no novel transcript produced")
    chk.inconclusive_if(chk.extra.get("clusters_processed_in_several_regions", 0) == 0, "no locus was processed in several regions")
    chk.min_nontrivial = 8
