"""C12 — equivalent representations of the same input give identical results.

Monitor: equality of output trees (multisets of records where the statement says so) across invocations that differ only in how
the same annotation (.gtf / .gtf.gz / pre-built .db, --complete_genedb or inferred, cached or freshly converted) or the same
alignment records (one BAM / 2-5 BAMs) are supplied.  A `merge` hook on BAMOnlineMerger.get logs the merge order (cross-file
ties seen, files exhausted early) as coverage evidence.
"""
import gzip
import os
import random
import shutil
import subprocess
from collections import Counter

from vlib import runner, pipeline, world, world2, parse

LEVEL = "exploration"


def lines_multiset(path):
    data = runner.normalized(path if os.path.exists(path) else path + ".gz")
    return Counter(l for l in data.split(b"\n") if l and not l.startswith(b"#"))


def run(chk, scratch):
    thorough = chk.tier == "thorough"
    chk.rule = ("per world: reference run (.gtf + --complete_genedb, one BAM) versus .gtf.gz, inferred genes/transcripts, pre-built .db (built with the tree's "
                "own gtf2db, complete and inferred), cached conversion (second run under the same HOME must report the cached database) and --clean_start; "
                "the same records split into 2-5 BAMs at random, by chromosome, so that equal-coordinate records land in different files, and so that the primary record of a read whose secondary record has the same start and end sits in the last file (one of them with its @SQ header lines in another order). "
                "non-trivial = distinct (representation kind, #files, tie present, cache hit) tuples")
    n_worlds = 5 if thorough else 1
    for wi in range(n_worlds):
        seed = chk.seed * 17 + wi
        d = os.path.join(scratch, "w%d" % wi)
        w = world2.rich_world(seed, n_chroms=3, genes_per_chrom=3, reads_per_t=5, hidden_cov=5, zoo=world2.ZOO_ALL, unmapped=7)
        rng = random.Random(seed)
        # equal-coordinate records: duplicates of some reads under new names
        base_reads = [r for r in w.reads if not (r.flag & 4) and not r.truth.get("multimap")]
        for r in rng.sample(base_reads, 25):
            from vlib.world import Read
            w.reads.append(Read(r.name + "_twin", r.chrom, r.pos0, list(r.cigar), r.seq, r.flag, r.mapq, list(r.tags), dict(r.truth, twin=True)))
        # reads with a primary and a secondary record that have the SAME start and end and different junctions (the secondary skips the
        # second exon); one partition puts the primary records of these reads into the last file
        full = [r for r in base_reads if r.truth.get("mode") == "full" and not r.truth.get("indels") and len(r.aligned_exons()) >= 4
                and not r.cigar[0][0] == 4 and not r.cigar[-1][0] == 4]
        for r in rng.sample(full, min(8, len(full))):
            ex = r.aligned_exons()
            w.make_read(r.chrom, [ex[0]] + ex[2:], name=r.name, flag=256 | (r.flag & 16), truth=dict(r.truth, same_span_secondary=True))
            r.truth["same_span_primary"] = True
        # pairs of reads with IDENTICAL alignment blocks of which one carries a soft-clipped polyA tail and one does not, at a gene whose two isoforms
        # differ only downstream of the reads' end (the tail decides between them); in the one-file input the tailed read comes first, one
        # partition puts the tail-less ones into the first file
        from vlib.world import Gene as _G, Transcript as _T
        for ci_, chrom_ in enumerate(w.chrom_order[:2]):
            p_ = world2._free_pos(w, chrom_, 3000)
            if p_ + 6000 > w.chrom_len(chrom_):
                continue
            st_ = "+-"[ci_ % 2]
            if st_ == "+":
                t1_ = [(p_ + 1, p_ + 200), (p_ + 1001, p_ + 1200), (p_ + 2001, p_ + 2500)]
                t2_ = [(p_ + 1, p_ + 200), (p_ + 1001, p_ + 1200), (p_ + 2001, p_ + 2600), (p_ + 3001, p_ + 3300)]
                blocks_ = [(p_ + 1, p_ + 200), (p_ + 1001, p_ + 1200), (p_ + 2001, p_ + 2490)]
                tail_ = {"polya": 30, "flag": 0}
            else:
                t1_ = [(p_ + 801, p_ + 1300), (p_ + 2101, p_ + 2300), (p_ + 3101, p_ + 3300)]
                t2_ = [(p_ + 1, p_ + 300), (p_ + 701, p_ + 1300), (p_ + 2101, p_ + 2300), (p_ + 3101, p_ + 3300)]
                blocks_ = [(p_ + 811, p_ + 1300), (p_ + 2101, p_ + 2300), (p_ + 3101, p_ + 3300)]
                tail_ = {"polyt": 30, "flag": 16}
            g_ = _G("TWT%d" % (ci_ + 1), chrom_, st_)
            g_.transcripts.append(_T(g_.id + ".t1", g_.id, chrom_, st_, t1_, True, "ends-early"))
            g_.transcripts.append(_T(g_.id + ".t2", g_.id, chrom_, st_, t2_, True, "goes-on"))
            for t_ in g_.transcripts:
                for intr in t_.introns:
                    w.plant_sites(chrom_, intr, st_)
            w.genes.append(g_)
            for j_ in range(3):
                w.make_read(chrom_, blocks_, truth={"class": "twin-with-tail"}, **tail_)
                w.make_read(chrom_, blocks_, flag=tail_["flag"], truth={"class": "twin-without-tail", "tailless_twin": True})
        pipeline.write_world(w, d)
        gtf = os.path.join(d, "a.gtf")
        os.makedirs(os.path.join(d, "sfx"), exist_ok=True)
        with open(gtf, "rb") as f, gzip.open(os.path.join(d, "sfx", "a.gtf.gzip"), "wb") as g:
            g.write(f.read())
        import pysam as _pysam
        _pysam.tabix_compress(gtf, os.path.join(d, "sfx", "a.gtf.bgz"), force=True)
        with open(gtf, "rb") as f, gzip.open(os.path.join(d, "a.gtf.gz"), "wb") as g:
            g.write(f.read())
        # databases built with the tree's own converter
        for name, flag in (("complete.db", ["-c"]), ("inferred.db", [])):
            p = subprocess.run([runner.PY, os.path.join(runner.REPO, "src", "gtf2db.py"), "-i", gtf, "-o", os.path.join(d, name)] + flag,
                               stdout=subprocess.PIPE, stderr=subprocess.STDOUT, cwd=d)
            if p.returncode != 0 or not os.path.exists(os.path.join(d, name)):
                raise runner.Inconclusive("could not build %s with src/gtf2db.py: %s" % (name, p.stdout.decode()[-300:]))
        bam = os.path.join(d, "r.bam")
        base = ["-d", "nanopore", "-r", os.path.join(d, "g.fa"), "-t", str(1 + seed % 2), "-p", pipeline.PREFIX, "--no_gzip", "--force", "--count_exons"]
        # BAM partitions
        mapped = [r for r in w.reads if not (r.flag & 4)]
        unmapped = [r for r in w.reads if r.flag & 4]
        parts = {}

        def write_parts(name, assign, k):
            files = []
            for fi in range(k):
                # the files of one partition have names outside ASCII (file names become read-group labels of a multi-file experiment)
                p = os.path.join(d, ("r\u00e9plicat_\u03b1_%d.bam" % fi) if name == "bychrom" else ("%s_%d.bam" % (name, fi)))
                # unmapped records are spread over the files (none in the first file of the 'twins-apart' partition)
                um = unmapped[fi::k] if name != "twins-apart" else (unmapped if fi == k - 1 else [])
                rs = [r for r in mapped if assign(r) == fi] + um
                # the @SQ lines of the second file of the random partition are in reverse order (each file is sorted against its own header)
                co_ = w.chrom_order[::-1] if (name == "random3" and fi == 1) else None
                if name == "bychrom-own-headers":
                    # every file lists only the sequences it has records on (a BAM split by chromosome and re-headered)
                    co_ = [c_ for c_ in w.chrom_order if any(r_.chrom == c_ for r_ in rs if not r_.flag & 4)]
                w.write_bam(p, reads=rs, chrom_order=co_)
                files.append(p)
            parts[name] = files
        rmap = {r.name: rng.randrange(3) for r in mapped}
        write_parts("random3", lambda r: rmap[r.name], 3)
        write_parts("bychrom", lambda r: w.chrom_order.index(r.chrom) % 2, 2)
        write_parts("twins-apart", lambda r: 1 if r.truth.get("twin") else 0, 2)
        write_parts("bychrom-own-headers", lambda r: w.chrom_order.index(r.chrom) % 2, 2)
        write_parts("tailless-first", lambda r: 0 if r.truth.get("tailless_twin") else 1, 2)
        write_parts("primary-last", lambda r: 1 if (r.truth.get("same_span_primary") and not r.flag & 256) else 0, 2)
        if thorough:
            rmap5 = {r.name: rng.randrange(5) for r in mapped}
            write_parts("random5", lambda r: rmap5[r.name], 5)
        runs = [("ref", ["-g", gtf, "--complete_genedb", "--bam", bam], "home_ref", None),
                ("gtf-gz", ["-g", gtf + ".gz", "--complete_genedb", "--bam", bam], "home_gz", "annotation"),
                ("gtf-inferred", ["-g", gtf, "--bam", bam], "home_inf", "annotation"),
                # the compressed annotation under the other suffixes IsoQuant's own annotation check recognises (.gzip, .bgz)
                ("gtf-gzip-suffix", ["-g", os.path.join(d, "sfx", "a.gtf.gzip"), "--complete_genedb", "--bam", bam], "home_gzip", "annotation"),
                ("gtf-bgz-suffix", ["-g", os.path.join(d, "sfx", "a.gtf.bgz"), "--complete_genedb", "--bam", bam], "home_bgz", "annotation"),
                ("db-complete", ["-g", os.path.join(d, "complete.db"), "--complete_genedb", "--bam", bam], "home_dbc", "annotation"),
                ("db-inferred", ["-g", os.path.join(d, "inferred.db"), "--bam", bam], "home_dbi", "annotation"),
                ("cached", ["-g", gtf, "--complete_genedb", "--bam", bam], "home_ref", "annotation-cache"),
                ("clean-start", ["-g", gtf, "--complete_genedb", "--bam", bam, "--clean_start"], "home_ref", "annotation-cache")]
        for name, files in parts.items():
            runs.append(("bam-" + name, ["-g", gtf, "--complete_genedb", "--bam"] + files, "home_" + name, "alignments"))
        # the split files named in a YAML description of one experiment (with labels) and in a --bam_list file instead of on the command line
        with open(os.path.join(d, "exp.yaml"), "w") as f:
            f.write('[\n  data format: "bam",\n  {\n    name: "%s",\n    long read files: [%s],\n    labels: [%s]\n  }\n]\n' %
                    (pipeline.PREFIX, ", ".join('"%s"' % os.path.basename(x) for x in parts["random3"]), ", ".join('"rep%d"' % i for i in range(3))))
        with open(os.path.join(d, "exp.list"), "w") as f:
            f.write("#%s\n%s\n" % (pipeline.PREFIX, "\n".join(parts["twins-apart"])))
        # the same three files under ONE base name in three folders (rep_0/reads.bam, ...), given with --bam: files with equal default labels are
        # still three files
        same_ = []
        for k_, src_ in enumerate(parts["random3"]):
            os.makedirs(os.path.join(d, "rep_%d" % k_), exist_ok=True)
            dst_ = os.path.join(d, "rep_%d" % k_, "reads.bam")
            shutil.copy(src_, dst_)
            shutil.copy(src_ + ".bai", dst_ + ".bai")
            same_.append(dst_)
        runs.append(("bam-random3-same-base-name", ["-g", gtf, "--complete_genedb", "--bam"] + same_, "home_samename", "alignments"))
        runs.append(("bam-random3-yaml", ["-g", gtf, "--complete_genedb", "--yaml", os.path.join(d, "exp.yaml")], "home_yaml", "alignments"))
        runs.append(("bam-twins-apart-list", ["-g", gtf, "--complete_genedb", "--bam_list", os.path.join(d, "exp.list")], "home_list", "alignments"))
        # the same comparison with the in-memory alignment storage (--high_memory): reference and split run both use it
        runs.append(("ref-hm", ["-g", gtf, "--complete_genedb", "--high_memory", "--bam", bam], "home_ref_hm", None))
        runs.append(("bam-random3-hm", ["-g", gtf, "--complete_genedb", "--high_memory", "--bam"] + parts["random3"], "home_random3_hm", "alignments-hm"))
        # the reference genome compressed with plain gzip (IsoQuant works on an uncompressed copy it writes into the output folder): in a fresh
        # output folder, and in a folder used before for a run on ANOTHER genome whose file has the same name
        os.makedirs(os.path.join(d, "gz"), exist_ok=True)
        os.makedirs(os.path.join(d, "other"), exist_ok=True)
        with open(os.path.join(d, "g.fa"), "rb") as f, gzip.open(os.path.join(d, "gz", "g.fa.gz"), "wb") as g:
            g.write(f.read())
        comp = bytes.maketrans(b"ACGTacgt", b"CATGcatg")
        with open(os.path.join(d, "g.fa"), "rb") as f, gzip.open(os.path.join(d, "other", "g.fa.gz"), "wb") as g:
            for line in f:
                g.write(line if line.startswith(b">") else line.translate(comp))
        runs.append(("reference-gz", ["-r", os.path.join(d, "gz", "g.fa.gz"), "-g", gtf, "--complete_genedb", "--bam", bam], "home_rgz", "reference"))
        runs.append(("reference-gz-used-folder", ["-r", os.path.join(d, "gz", "g.fa.gz"), "-g", gtf, "--complete_genedb", "--bam", bam], "home_rgz2", "reference"))
        # the reference run first (it also fills the cache used by 'cached')
        outs = {}

        def one(rn):
            name, args, home, kind = rn
            out = os.path.join(d, "out_" + name)
            ev = out + "_ev"
            b = list(base)
            if "-r" in args:
                del b[b.index("-r"):b.index("-r") + 2]
            if name == "reference-gz-used-folder":
                # an earlier run into the same folder on another genome (same file name, other content)
                runner.run_isoquant(["-o", out] + b + ["-r", os.path.join(d, "other", "g.fa.gz"), "-g", gtf, "--complete_genedb", "--bam", parts["bychrom"][0],
                                                       "--no_model_construction"], os.path.join(d, home))
            r = runner.run_isoquant(["-o", out] + b + args, os.path.join(d, home), mon=["merge"], events=ev)
            return rn, out, ev, r
        first = one(runs[0])
        rest = runner.parallel(one, [r for r in runs[1:] if r[0] not in ("cached", "clean-start")], workers=6)
        seq = [one(r) for r in runs if r[0] in ("cached", "clean-start")]
        for rn, out, ev, r in [first] + rest + seq:
            name, args, home, kind = rn
            desc = "world=%d representation=%s" % (seed, name)
            wit = {"world_seed": seed, "representation": name}
            if r["rc"] is None:
                chk.inconclusive.append("watchdog expired: " + desc)
                continue
            if r["rc"] != 0:
                chk.violation("run-failed:" + name, "%s: %s" % (desc, pipeline.fail_text(r)), wit)
                continue
            outs[name] = out
            if name == "cached" and "Gene annotation file found" not in r["out"]:
                chk.inconclusive.append("%s: the cached-conversion branch was not reached" % desc)
            if name == "clean-start" and "Gene annotation file found" in r["out"]:
                chk.violation("clean-start-used-cache", "%s: --clean_start run reported a cached database" % desc, wit)
            evs = [e for e in runner.load_events(ev) if e["k"] == "merge"]
            ties = sum(e.get("cross_file_ties", 0) for e in evs)
            if kind:
                chk.nontrivial.add((name, len(args) - args.index("--bam") - 1 if "--bam" in args else 1, ties > 0, name == "cached"))
                chk.count("cross_file_ties_seen", ties)
        ref = outs.get("ref")
        if not ref:
            continue
        for name, out in outs.items():
            if name == "ref":
                continue
            chk.note()
            kind = [r for r in runs if r[0] == name][0][3]
            wit = {"world_seed": seed, "representation": name}
            a_dir, b_dir = os.path.join(ref, pipeline.PREFIX), os.path.join(out, pipeline.PREFIX)
            if kind is None:
                continue
            if kind == "alignments-hm":
                if "ref-hm" not in outs:
                    continue
                a_dir = os.path.join(outs["ref-hm"], pipeline.PREFIX)
            if kind == "reference":
                for rel, why in runner.compare_trees(a_dir, b_dir):
                    chk.violation("reference-representation-changes-output:%s:%s" % (name, rel.split(".", 1)[1] if "." in rel else rel),
                                  "world=%d: %s %s between the run on the plain FASTA and %s" % (seed, rel, why, name), wit)
            elif kind in ("annotation", "annotation-cache"):
                for rel, why in runner.compare_trees(a_dir, b_dir):
                    chk.violation("annotation-representation-changes-output:%s:%s" % (name, rel.split(".", 1)[1] if "." in rel else rel),
                                  "world=%d: %s %s between the reference run and %s" % (seed, rel, why, name), wit)
            else:
                # several BAMs switch on file-name grouping and technical replicas: only assignments, BED and ungrouped reference tables
                for suffix in ("read_assignments.tsv", "corrected_reads.bed", "gene_counts.tsv", "transcript_counts.tsv", "gene_tpm.tsv", "transcript_tpm.tsv",
                               "exon_counts.tsv", "intron_counts.tsv"):
                    pa, pb = os.path.join(a_dir, "%s.%s" % (pipeline.PREFIX, suffix)), os.path.join(b_dir, "%s.%s" % (pipeline.PREFIX, suffix))
                    if not parse.exists(pb):
                        chk.violation("alignment-partition-changes-output:%s:missing:%s" % (name, suffix), "world=%d: %s missing" % (seed, suffix), wit)
                        continue
                    ma, mb = lines_multiset(pa), lines_multiset(pb)
                    if ma != mb:
                        only_a = list((ma - mb).elements())[:2]
                        only_b = list((mb - ma).elements())[:2]
                        chk.violation("alignment-partition-changes-output:%s:%s" % (name.split("-", 1)[1], suffix),
                                      "world=%d: %s differs as a multiset of records between one BAM and %s; only in one-BAM run: %s; only in split run: %s" %
                                      (seed, suffix, name, [x[:120] for x in only_a], [x[:120] for x in only_b]), wit)
        # the annotation at the SAME path replaced by other content (fewer genes) while the conversion cache is warm: file time older than
        # the cached database (restored backup, cp -p, rsync -t), then newer (edited); both must equal a fresh conversion of the new content
        all_genes = w.genes
        w.genes = [g for g in all_genes if not g.id.endswith("_2")]
        gtf_b = os.path.join(d, "b.gtf")
        w.write_gtf(gtf_b)
        w.genes = all_genes
        st = os.stat(gtf)
        rb = one(("refB", ["-g", gtf_b, "--complete_genedb", "--bam", bam], "home_refB", "annotation-cache"))
        if rb[3]["rc"] != 0:
            chk.inconclusive.append("world=%d: reference run on the replaced annotation did not finish (%s)" % (seed, rb[3]["rc"]))
        else:
            for name, mtime in (("replaced-older", st.st_mtime - 7200), ("replaced-newer", st.st_mtime + 5)):
                shutil.copyfile(gtf_b, gtf)
                os.utime(gtf, (mtime, mtime))
                rn, out, ev, r = one((name, ["-g", gtf, "--complete_genedb", "--bam", bam], "home_ref", "annotation-cache"))
                wit = {"world_seed": seed, "representation": name}
                chk.note()
                if r["rc"] is None:
                    chk.inconclusive.append("watchdog expired: world=%d %s" % (seed, name))
                    continue
                if r["rc"] != 0:
                    chk.violation("run-failed:" + name, "world=%d %s: %s" % (seed, name, pipeline.fail_text(r)), wit)
                    continue
                chk.nontrivial.add((name, 1, False, "Gene annotation file found" in r["out"]))
                for rel, why in runner.compare_trees(os.path.join(rb[1], pipeline.PREFIX), os.path.join(out, pipeline.PREFIX)):
                    chk.violation("annotation-representation-changes-output:%s:%s" % (name, rel.split(".", 1)[1] if "." in rel else rel),
                                  "world=%d: %s %s between a fresh conversion of the annotation and the run that found another annotation's database "
                                  "cached under the same path (%s)" % (seed, rel, why, name), wit)
                outs[name] = out
        # an annotation in which every third gene is described by exon records only: a conversion made WITH --complete_genedb (nothing inferred)
        # is cached; a later run of the same file WITHOUT the option must give what a fresh conversion gives (the genes are inferred)
        skip = {g.id for i_, g in enumerate(w.genes) if g.transcripts and i_ % 3 == 0}
        gtf_p = os.path.join(d, "partial.gtf")
        w.write_gtf(gtf_p, no_meta_genes=skip)
        p1 = one(("partial-complete", ["-g", gtf_p, "--complete_genedb", "--bam", bam], "home_partial", None))
        p2 = one(("partial-inferred-after-complete", ["-g", gtf_p, "--bam", bam], "home_partial", "annotation-cache"))
        p3 = one(("partial-inferred-fresh", ["-g", gtf_p, "--bam", bam], "home_partial_fresh", "annotation-cache"))
        if p2[3]["rc"] != 0 or p3[3]["rc"] != 0:
            for nm_, pr_ in (("partial-inferred-after-complete", p2), ("partial-inferred-fresh", p3)):
                if pr_[3]["rc"] not in (0, None):
                    chk.violation("run-failed:" + nm_, "world=%d %s: %s" % (seed, nm_, pipeline.fail_text(pr_[3])), {"world_seed": seed, "representation": nm_})
        else:
            chk.note()
            chk.count("partial_annotation_sequences")
            chk.nontrivial.add(("partial-inferred-after-complete", 1, False, "Gene annotation file found" in p2[3]["out"]))
            for rel, why in runner.compare_trees(os.path.join(p3[1], pipeline.PREFIX), os.path.join(p2[1], pipeline.PREFIX)):
                chk.violation("annotation-representation-changes-output:cached-complete-conversion-used-for-inferred-run:%s" % (rel.split(".", 1)[1] if "." in rel else rel),
                              "world=%d: %s %s between a fresh run without --complete_genedb and the same run started after a --complete_genedb run of the same file "
                              "under the same HOME" % (seed, rel, why), {"world_seed": seed, "representation": "partial-inferred-after-complete"})
        chk.sample({"world": seed, "representations_compared": sorted(n for n in outs if n != "ref")}, limit=2)
        if chk.violations and not getattr(chk, "witness_files", None):
            chk.witness_files = [os.path.join(d, f) for f in os.listdir(d) if f.endswith((".bam", ".bai", ".gtf", ".gz", ".fa"))]
    chk.assumptions = ["with several BAMs IsoQuant switches on file-name grouping and the technical-replica rule for novel models: those outputs are outside the statement",
                       "databases are built with the tree's own src/gtf2db.py"]
    chk.min_nontrivial = 6
