"""C10 — experiments processed in one invocation are independent of each other.

Monitor: output trees of <out>/<experiment>/ of joint runs (YAML / list files with several experiments) versus
stand-alone runs of each experiment under the same name and options; combined_* tables versus the per-experiment
tables; the launcher's state monitor snapshots process-wide state at every process_sample entry (evidence of what
carried over, not a verdict).
"""
import csv
import math
import os
import shutil

from vlib import runner, pipeline, world2, parse

LEVEL = "exploration"


def make_experiments(d, seed):
    """Three read sets over one genome/annotation: A and B share expressed genes, C is smaller; A2 = copy of A."""
    w = world2.rich_world(seed, n_chroms=3, genes_per_chrom=3, reads_per_t=6, hidden_cov=5, unmapped=0, zoo=world2.ZOO_ALL)
    os.makedirs(d, exist_ok=True)
    if "chrU" in w.chroms:
        # long reads on the unannotated sequence whose first intron ends 4 bp before the end of the intron that short reads support
        for k in range(8):
            w.make_read("chrU", [(2100 + 5 * k, 2400), (2996, 3300), (4000, 4300 - 3 * k)], polya=30, truth={"class": "junction-4bp-off-short-read-junction"})
        from vlib.world import World
        sw = World(seed)
        sw.chroms, sw.chrom_order = w.chroms, w.chrom_order
        for intr in ((2401, 2999), (3301, 3999)):
            for _ in range(4):
                sw.make_read("chrU", [(intr[0] - 60, intr[0] - 1), (intr[1] + 1, intr[1] + 60)], name=sw.new_read_name("s"))
        sw.write_bam(os.path.join(d, "short.bam"))
        # a second short-read file with the SAME base name in another folder: its reads support the first junction exactly where the long
        # reads have it (experiment B uses this one)
        sw2 = World(seed)
        sw2.chroms, sw2.chrom_order = w.chroms, w.chrom_order
        for intr in ((2401, 2995), (3301, 3999)):
            for _ in range(4):
                sw2.make_read("chrU", [(intr[0] - 60, intr[0] - 1), (intr[1] + 1, intr[1] + 60)], name=sw2.new_read_name("s"))
        os.makedirs(os.path.join(d, "alt"), exist_ok=True)
        sw2.write_bam(os.path.join(d, "alt", "short.bam"))
    w.write_fasta(os.path.join(d, "g.fa"))
    # part of the reference carries IsoQuant-style ids (an extended annotation of an earlier run fed back): the numbers reserved on one
    # sequence while one experiment is processed must not influence the ids another experiment gives out
    id_map = {}
    n = 0
    for g in w.genes:
        if g.chrom in (w.chrom_order[0], w.chrom_order[-1]) and g.transcripts and len(id_map) < 40:
            n += 1
            id_map[g.id] = "novel_gene_%s_%d" % (g.chrom, n)
            for t in g.transcripts:
                n += 1
                id_map[t.id] = "transcript%d.%s.nnic" % (n, g.chrom)
    # feature ids are arbitrary strings: a gene called NA (a legal gene symbol) and a transcript whose id reads like a number with leading zeros
    plain_ = [g for g in w.genes if g.transcripts and g.id not in id_map and not g.id.startswith(("P", "X", "Z")) and g.id != "G1_1"]
    if plain_:
        id_map[plain_[0].id] = "NA"
        id_map[plain_[0].transcripts[0].id] = "007"
    w.write_gtf(os.path.join(d, "a.gtf"), id_map=id_map)
    reads = [r for r in w.reads]
    # one read -> group table for all experiments (sequences run with --read_group file:...): experiments that share read ids (A and B share a
    # third of their reads, A2 is a copy of A) each look their own reads up in it
    with open(os.path.join(d, "groups.tsv"), "w") as f:
        for nm in sorted({r.name for r in reads}):
            f.write("%s\tgrp%d\n" % (nm, sum(map(ord, nm)) % 3))
    from vlib.world import Read
    rng = w.rng
    sets = {"A": [r for i, r in enumerate(reads) if i % 3 != 0],
            "B": [r for i, r in enumerate(reads) if i % 3 != 1],
            "C": [r for i, r in enumerate(reads) if i % 5 == 0]}
    # keep multi-mapper families complete inside a set
    for k in sets:
        names = {r.name for r in sets[k]}
        sets[k] = [r for r in reads if r.name in names]
    # alignment records that occur twice (same name, same coordinates; IsoQuant reports them and keeps one copy): six reads in A, one in B,
    # two in C - what an experiment does with its repeated records must not depend on how many an earlier experiment had
    for k, ndup in (("A", 6), ("B", 1), ("C", 2)):
        fam = {}
        for r in sets[k]:
            fam[r.name] = fam.get(r.name, 0) + 1
        singles = [r for r in sets[k] if fam[r.name] == 1 and not r.flag & 0x904 and len(r.cigar) >= 3]
        sets[k] = sets[k] + singles[3:3 + 5 * ndup:5]
    # experiment C is polyA-trimmed data (no soft-clipped tails at all): what one experiment's share of tailed reads was must not reach the next
    import copy as _copy
    trimmed = []
    for r in sets["C"]:
        r2 = _copy.copy(r)
        cig, seq = list(r.cigar), r.seq
        if cig and cig[0][0] == 4:
            seq, cig = seq[cig[0][1]:], cig[1:]
        if cig and cig[-1][0] == 4:
            seq, cig = seq[:-cig[-1][1]], cig[:-1]
        r2.cigar, r2.seq = cig, seq
        trimmed.append(r2)
    sets["C"] = trimmed
    unm = {"A": 2, "B": 5, "C": 0}
    paths = {}
    for k, rs in sets.items():
        extra = [Read("unm%s%d" % (k, i), None, -1, [], "ACGTACGTACGT", flag=4, mapq=0) for i in range(unm[k])]
        # two files per experiment as well (technical replicas): part1/part2
        p = os.path.join(d, "%s.bam" % k)
        w.write_bam(p, reads=rs + extra)
        p1, p2 = os.path.join(d, "%s_rep1.bam" % k), os.path.join(d, "%s_rep2.bam" % k)
        w.write_bam(p1, reads=[r for i, r in enumerate(rs) if i % 2 == 0] + extra)
        w.write_bam(p2, reads=[r for i, r in enumerate(rs) if i % 2 == 1])
        # unbalanced replicas: nine reads in ten in the first file (novel isoforms supported by ONE file only)
        s1, s2 = os.path.join(d, "%s_skew1.bam" % k), os.path.join(d, "%s_skew2.bam" % k)
        w.write_bam(s1, reads=[r for i, r in enumerate(rs) if i % 10 != 0] + extra)
        w.write_bam(s2, reads=[r for i, r in enumerate(rs) if i % 10 == 0])
        paths[k] = {"one": [p], "two": [p1, p2], "skew": [s1, s2]}
    shutil.copy(paths["A"]["one"][0], os.path.join(d, "A2.bam"))
    shutil.copy(paths["A"]["one"][0] + ".bai", os.path.join(d, "A2.bam.bai"))
    paths["A2"] = {"one": [os.path.join(d, "A2.bam")], "two": paths["A"]["two"], "skew": paths["A"]["skew"]}
    # experiment names that differ only in surrounding white space are different names (different output folders)
    paths["B "] = paths["C"]
    paths["SKIP"] = {"one": [], "two": [], "skew": []}        # an experiment without long-read files (silently dropped)
    # an experiment that bears the name IsoQuant would give to the third experiment of a run if it had to rename it (<prefix><index>, default
    # prefix OUT): with a repeated name further down, renaming must not hand out a name that is taken
    paths["OUT2"] = paths["A"]
    return paths


def illumina_of(mode):
    """mode 'yaml-ill:A' = YAML input in which experiment A carries an 'illumina bam' entry (short.bam next to the YAML file)"""
    return tuple(mode.split("ill:", 1)[1].split(",")) if "ill:" in mode else ()


def write_yaml(path, exps, unlabeled=(), illumina=()):
    """exps: list of (name, [files]); experiments named in `unlabeled` get no labels entry (file names are used then)"""
    with open(path, "w") as f:
        f.write("[\n  data format: \"bam\",\n")
        items = []
        for name, files in exps:
            ill = (',\n    illumina bam: ["%s"]' % os.path.join(os.path.dirname(path), "alt" if name == "B" else "", "short.bam")) if name in illumina else ""
            if not files:
                items.append("  {\n    name: \"%s\",\n    long read files: []%s\n  }" % (name, ill))
                continue
            if name in unlabeled:
                items.append("  {\n    name: \"%s\",\n    long read files: [%s]%s\n  }" % (name, ", ".join('"%s"' % x for x in files), ill))
                continue
            items.append("  {\n    name: \"%s\",\n    long read files: [%s],\n    labels: [%s]%s\n  }" %
                         (name, ", ".join('"%s"' % x for x in files),
                          ", ".join('"%s_r%d"' % (name.lower(), i + 1) for i in range(len(files))), ill))
        f.write(",\n".join(items))
        f.write("\n]\n")


def unlabeled_of(mode):
    """mode 'yaml-unl:B,C' = YAML input in which experiments B and C carry no labels"""
    return tuple(mode.split("unl:", 1)[1].split(",")) if "unl:" in mode else ()


def write_list(path, exps):
    with open(path, "w") as f:
        for name, files in exps:
            f.write("#%s\n" % name)
            for i, x in enumerate(files):
                f.write("%s:rep%d\n" % (x, i + 1))
            f.write("\n")


def table_values(path):
    res = {}
    with open(path) as f:
        rd = csv.reader(f, delimiter="\t")
        header = next(rd)
        for row in rd:
            res[row[0]] = row[1:]
    return header, res


def check_combined(chk, out, names, wit):
    for kind, col in (("gene_counts", "count"), ("transcript_counts", "count"), ("gene_tpm", "TPM"), ("transcript_tpm", "TPM")):
        cp = os.path.join(out, "combined_%s.tsv" % kind)
        if not os.path.exists(cp):
            chk.violation("combined-missing:" + kind, "combined_%s.tsv missing" % kind, wit)
            continue
        header, comb = table_values(cp)
        if header[1:] != names:
            chk.violation("combined-columns:" + kind, "columns %s, experiments %s" % (header[1:], names), wit)
            continue
        all_feats = set()
        for j, n in enumerate(names):
            vals, _ = parse.read_counts(os.path.join(out, n, "%s.%s.tsv" % (n, kind)))
            if kind.endswith("counts"):
                vals = {k: v for k, v in vals.items() if not k.startswith("__")}
            all_feats |= set(vals)
            for feat, v in vals.items():
                chk.note()
                cell = comb.get(feat, [None] * len(names))[j]
                if cell in (None, ""):
                    chk.violation("combined-cell-missing:" + kind, "%s: feature %s of %s absent from the combined table" % (kind, feat, n), wit)
                elif abs(float(cell) - v) > 1e-6 * max(1.0, abs(v)):
                    chk.violation("combined-cell-differs:" + kind, "%s: %s/%s combined %s, own table %s" % (kind, feat, n, cell, v), wit)
            for feat, row in comb.items():
                if feat not in vals and row[j] not in ("", "nan", "NaN"):
                    chk.violation("combined-extra-cell:" + kind, "%s: %s has value %s for %s which its own table lacks" % (kind, feat, row[j], n), wit)
        if set(comb) != all_feats:
            chk.violation("combined-rows:" + kind, "row set differs from the union of the experiments' tables", wit)


def run(chk, scratch):
    thorough = chk.tier == "thorough"
    chk.rule = ("experiments A, B (shared genes, different unmapped counts), C, A2 (copy of A) over one annotation; joint runs from YAML / list files in "
                "sequences [A,B], [B,A], [A,A2], [A,B,C], ... with -t 1 and -t 4, single-file and two-file experiments; each <out>/<X>/ compared byte-wise with "
                "the stand-alone run of X under the same name/options; combined tables compared cell by cell. non-trivial = (sequence, position, threads, "
                "files per experiment) where X is not first and shares expressed reference transcripts with an earlier experiment")
    n_worlds = 3 if thorough else 1
    for wi in range(n_worlds):
        d = os.path.join(scratch, "w%d" % wi)
        paths = make_experiments(d, chk.seed * 13 + wi)
        base = ["-d", "nanopore", "-r", os.path.join(d, "g.fa"), "-g", os.path.join(d, "a.gtf"), "--complete_genedb",
                "--no_gzip", "--force", "--count_exons"]
        if thorough:
            seqs = [(["A", "B"], "one", 1, "yaml"), (["B", "A"], "one", 1, "yaml"), (["A", "A2"], "one", 1, "yaml"),
                    (["A", "B", "C"], "one", 1, "list"), (["C", "B", "A"], "one", 4, "yaml"), (["A", "B"], "one", 4, "list"),
                    (["A", "B"], "two", 1, "yaml"), (["B", "A", "C"], "two", 4, "yaml"), (["B", "C"], "two", 1, "list"),
                    (["A", "B"], "one", 1, "yaml-nomodels"), (["C", "A", "B"], "one", 1, "yaml"),
                    (["A", "B"], ("one", "skew"), 1, "yaml"), (["B", "A"], ("skew", "one"), 1, "yaml"), (["C", "A", "B"], ("one", "skew", "two"), 4, "list"),
                    (["A", "B"], "skew", 4, "yaml"), (["A", "B"], "two", 1, "yaml-unl:B"), (["B", "A", "C"], "two", 2, "yaml-unl:B,C"),
                    (["C", "A"], ("one", "two"), 1, "yaml-unl:C"), (["B", "B "], "one", 1, "yaml"), (["B ", "A", "B"], "two", 3, "yaml"), (["SKIP", "A", "B"], "one", 1, "yaml-ill:SKIP,A"), (["A", "SKIP", "B", "C"], "one", 2, "yaml-ill:A,C"),
                    (["A", "A2", "B"], "one", 1, "list-rgtable"), (["B", "A"], "one", 3, "yaml-rgtable"), (["A", "B"], "one", 1, "yaml-ill:A,B"), (["B", "A"], "one", 1, "yaml-ill:A,B"), (["A", "C"], "one", 1, "yaml-pacbio"), (["B", "C", "A"], "one", 3, "list-pacbio"), (["A", "A2", "B"], "one", 1, "yaml-hm"), (["B", "A"], "two", 4, "list-hm"), (["A", "A2"], "two", 2, "yaml"), (["A2", "A"], "two", 1, "list")]
        else:
            seqs = [(["A", "B", "C"], "one", 1, "yaml"), (["B", "A"], "one", 4, "list"), (["A", "B"], "two", 1, "yaml"),
                    (["A", "A2"], "one", 1, "yaml"), (["A", "B"], ("one", "skew"), 1, "yaml"), (["B", "A"], ("skew", "one"), 2, "list"),
                    (["A", "B"], "two", 2, "yaml-unl:B"), (["B", "B "], "one", 2, "yaml"), (["SKIP", "A", "B"], "one", 1, "yaml-ill:SKIP,A"),
                    (["A", "A2", "B"], "one", 1, "list-rgtable"), (["A", "B"], "one", 1, "yaml-ill:A,B"), (["C", "A"], "one", 2, "list"), (["A", "C"], "one", 1, "yaml-pacbio"), (["A", "A2", "B"], "one", 1, "yaml-hm"), (["A", "A2"], "two", 2, "yaml"),
                    (["OUT2", "B", "B"], "one", 1, "yaml")]
        if thorough:
            seqs += [(["OUT2", "B", "B"], "one", 1, "yaml"), (["OUT2", "C", "C"], "one", 2, "list")]
        # stand-alone runs (per experiment x files x threads x mode)
        # a sequence whose experiments differ in the number of files runs (stand-alone and joint) with an explicit --read_group file_name,
        # which a mixed sequence would otherwise switch on implicitly for all experiments
        def base_of(mode):
            # '...-pacbio': the same with -d pacbio_ccs (its defaults do not require tails for mono-intronic novel transcripts unless the data is tail-rich)
            if mode.endswith("-hm"):
                return base + ["--high_memory"]       # everything of a chromosome kept in memory: nothing may stay there for the next experiment
            return [("pacbio_ccs" if x == "nanopore" else x) for x in base] if mode.endswith("-pacbio") else base

        def nf_of(nf, pos):
            return nf if isinstance(nf, str) else nf[pos]

        def rg_of(nf):
            # mixed sequences (experiments with one and with several files) run WITHOUT --read_group as well: implicit grouping by file name is
            # a matter of each experiment
            return []
        solo_keys = set()
        for names, nf, t, mode in seqs:
            for pos, n in enumerate(names):
                if n != "SKIP":
                    solo_keys.add((n, nf_of(nf, pos), t, mode, not isinstance(nf, str)))

        def run_solo(key):
            n, nf, t, mode, rg = key
            tag = n.replace(" ", "_sp")
            out = os.path.join(d, "solo_%s_%s_%d_%s_%s" % (tag, nf, t, mode.replace(":", "-").replace(",", "-"), rg))
            inp = os.path.join(d, "solo_%s_%s_%s_%s.in" % (tag, nf, mode.replace(":", "-").replace(",", "-"), rg))
            extra = ["--no_model_construction"] if mode.endswith("nomodels") else []
            extra += []
            extra += ["--read_group", "file:%s" % os.path.join(d, "groups.tsv")] if mode.endswith("rgtable") else []
            if mode.startswith("yaml"):
                write_yaml(inp, [(n, paths[n][nf])], unlabeled=unlabeled_of(mode), illumina=illumina_of(mode))
                a = ["-o", out, "--yaml", inp]
            else:
                write_list(inp, [(n, paths[n][nf])])
                a = ["-o", out, "--bam_list", inp]
            r = runner.run_isoquant(a + base_of(mode) + extra + ["-t", str(t)], os.path.join(d, "home_" + os.path.basename(out)))
            return key, out, r
        solos = {}
        for key, out, r in runner.parallel(run_solo, sorted(solo_keys), workers=8):
            if r["rc"] is None:
                raise runner.Inconclusive("watchdog expired in a stand-alone run")
            if r["rc"] != 0:
                chk.violation("standalone-run-failed", "stand-alone run of %s failed: %s" % (key, pipeline.fail_text(r)), {"key": key})
                continue
            solos[key] = out

        def run_joint(iseq):
            i, (names, nf, t, mode) = iseq
            out = os.path.join(d, "joint%d" % i)
            inp = os.path.join(d, "joint%d.in" % i)
            extra = ["--no_model_construction"] if mode.endswith("nomodels") else []
            extra += rg_of(nf)
            extra += ["--read_group", "file:%s" % os.path.join(d, "groups.tsv")] if mode.endswith("rgtable") else []
            exps = [(n, paths[n][nf_of(nf, pos)]) for pos, n in enumerate(names)]
            if mode.startswith("yaml"):
                write_yaml(inp, exps, unlabeled=unlabeled_of(mode), illumina=illumina_of(mode))
                a = ["-o", out, "--yaml", inp]
            else:
                write_list(inp, exps)
                a = ["-o", out, "--bam_list", inp]
            ev = os.path.join(d, "ev_joint%d" % i)
            r = runner.run_isoquant(a + base_of(mode) + extra + ["-t", str(t)], os.path.join(d, "home_joint%d" % i), mon=["state"], events=ev)
            return i, names, nf, t, mode, out, ev, r
        for i, names, nf, t, mode, out, ev, r in runner.parallel(run_joint, list(enumerate(seqs)), workers=6):
            desc = "sequence=%s files/experiment=%s threads=%d input=%s" % (names, nf, t, mode)
            wit = {"sequence": names, "files_per_experiment": nf, "threads": t, "input": mode, "world_seed": chk.seed * 13 + wi}
            if r["rc"] is None:
                chk.inconclusive.append("watchdog expired: " + desc)
                continue
            repeated_ = len(set(names)) < len(names)
            if r["rc"] != 0 and repeated_ and "Change experiment name" in r["out"]:
                # a repeated experiment name that cannot be replaced by a free one: the run refuses to start (nothing is overwritten)
                chk.count("runs_refused_because_of_a_repeated_experiment_name")
                chk.note()
                continue
            if r["rc"] != 0:
                chk.violation("joint-run-failed", "joint run failed (%s): %s" % (desc, pipeline.fail_text(r)), wit)
                continue
            if repeated_:
                # the later copy of a repeated name was renamed; the experiments that keep their names are compared as usual
                names = [n_ if n_ not in names[:k_] else "SKIP" for k_, n_ in enumerate(names)]
            snaps = [e for e in runner.load_events(ev) if e["k"] == "sample_start"]
            chk.sample({"sequence": names, "threads": t, "carried_state_at_sample_start": [(s["prefix"], s["state"]) for s in snaps]}, limit=3)
            for pos, n in enumerate(names):
                key = (n, nf_of(nf, pos), t, mode, not isinstance(nf, str))
                if n == "SKIP" or key not in solos:
                    continue
                a_dir, b_dir = os.path.join(solos[key], n), os.path.join(out, n)
                diffs = runner.compare_trees(a_dir, b_dir)
                chk.note()
                chk.count("experiment_comparisons")
                posk = "first" if pos == 0 else "later"
                tk = "t1" if t == 1 else "t>1"
                for rel, why in diffs:
                    suffix = rel.split(".", 1)[1] if "." in rel else rel
                    detail = ""
                    if why == "content differs":
                        la = runner.normalized(os.path.join(a_dir, rel)).split(b"\n")
                        lb = runner.normalized(os.path.join(b_dir, rel)).split(b"\n")
                        first = next(((x, y) for x, y in zip(la, lb) if x != y), (b"", b""))
                        detail = " (stand-alone %d lines, joint %d lines; first differing line %r vs %r)" % (len(la), len(lb), first[0][:120], first[1][:120])
                    chk.violation("experiment-differs:%s:%s:%s" % (posk, tk, suffix),
                                  "%s: experiment %s (position %d) file %s: %s%s" % (desc, n, pos, rel, why, detail), wit)
                if pos > 0:
                    chk.nontrivial.add((tuple(names), pos, t, nf, mode))
                    if not isinstance(nf, str) and len(paths[n][nf_of(nf, pos)]) > 1 and any(len(paths[m][nf_of(nf, q)]) == 1 for q, m in enumerate(names[:pos])):
                        chk.count("multi_file_experiments_after_a_single_file_one")
            if not repeated_:
                check_combined(chk, out, [n for n in names if n != "SKIP"], wit)
            shutil.rmtree(out, ignore_errors=True)
        if chk.violations and not getattr(chk, "witness_files", None):
            chk.witness_files = [os.path.join(d, f) for f in os.listdir(d) if f.endswith((".bam", ".bai", ".gtf", ".fa", ".in"))]
    chk.assumptions = ["stand-alone and joint runs use the same experiment name, labels and option string",
                       "mixed sequences (experiments with one and with several files) run without --read_group, stand-alone and jointly: implicit grouping by file name is a matter of each experiment (repaired in the tree by 377a93e; before, this check passed --read_group file_name explicitly to such sequences, which hid the defect)"]
    chk.inconclusive_if(chk.extra.get("experiment_comparisons", 0) == 0, "no experiment compared")
    chk.inconclusive_if(chk.extra.get("multi_file_experiments_after_a_single_file_one", 0) == 0, "no multi-file experiment was processed after a single-file one")
    chk.min_nontrivial = 3
