"""C17 — identifiers in the outputs are unique, collision-free and functional.

Monitor: offline checker over transcript_models.gtf and extended_annotation.gtf of CLI runs on worlds whose reference
annotation already contains IsoQuant-style ids (transcript<N>.<chr>.nic, novel_gene_<chr>_<N>, exon_id "<chr>.<N>");
the launcher's id monitor logs every FeatureIdStorage.get_id / ExcludingIdDistributor.increment call so the function
law (same key => same id, different key => different id) is also checked on the log.
"""
import os
import shutil
from collections import defaultdict

from vlib import runner, pipeline, world, world2, parse

LEVEL = "exploration"


def make_world(seed, collide):
    w = world.standard_world(seed, n_chroms=3, genes_per_chrom=4, hidden=True, mono_genes=True, chrom_len=230000)
    # make sure there are hidden isoforms on every chromosome
    # unannotated loci (novel genes): genes whose isoforms are all hidden from the annotation
    rng0 = w.rng
    for ci, chrom in enumerate(w.chrom_order):
        pos = max([g.end for g in w.genes if g.chrom == chrom] + [1000]) + 2500
        for k in range(3):
            if pos + 9000 > w.chrom_len(chrom):
                break
            g, end = w.make_gene("U%d_%d" % (ci + 1, k + 1), chrom, pos, rng0.choice("+-"), n_exons=rng0.randint(3, 5), n_iso=1)
            g.hidden = g.transcripts
            for t in g.hidden:
                t.annotated = False
            g.transcripts = []
            pos = end + rng0.randint(2000, 3000)
    # loci with IDENTICAL coordinates, strand and exon structure on every chromosome (annotated and hidden isoforms): an exon is
    # identified by chromosome AND coordinates
    common = max(g.end for g in w.genes) + 2500
    if common + 12000 < min(w.chrom_len(c) for c in w.chrom_order):
        x, _ = w.make_gene("X1", w.chrom_order[0], common, rng0.choice("+-"), n_exons=5, n_iso=2, hidden_kinds=("nnic_skip",))
        for ci, chrom in enumerate(w.chrom_order[1:]):
            world2.clone_gene(w, x, "X%d" % (ci + 2), chrom, x.start)
    world.add_standard_reads(w, per_transcript=6, jitter=2, hidden_cov=7, polya_frac=0.7)
    world2.add_zoo(w, tuple(z for z in world2.ZOO_ALL if z != "same_coords"))
    if seed % 2 == 1:
        # sequence names with dots (RefSeq / scaffold style): ids of the form transcript<N>.<chr>.<suffix> contain more dots then
        world2.rename_chroms(w, {c: ("NC_00007%d.6", "GL45621%d.1", "KI27072%d.1")[i % 3] % i for i, c in enumerate(w.chrom_order)})
    id_map = {}
    exon_ids = {}
    if collide:
        rng = w.rng
        per_chr_t = defaultdict(int)
        per_chr_g = defaultdict(int)
        per_chr_e = defaultdict(int)
        genes_only = collide == "genes-only"
        for g in w.genes:
            # 'genes-only': on the third sequence EVERY gene has an IsoQuant-style id (consecutive numbers) and NO transcript has one (transcripts
            # renamed <gene>.tN by a downstream step, or filtered while the gene records were kept)
            if rng.random() < 0.5 or (genes_only and g.chrom == w.chrom_order[2]):
                per_chr_g[g.chrom] += 1
                # numbers both below and above what a fresh run allocates
                num = per_chr_g[g.chrom] if (rng.random() < 0.7 or (genes_only and g.chrom == w.chrom_order[2])) else 40 + per_chr_g[g.chrom]
                id_map[g.id] = "novel_gene_%s_%d" % (g.chrom, num)
            dense = {w.chrom_order[0]: "nnic", w.chrom_order[1]: "nic"}.get(g.chrom)
            for t in g.transcripts:
                if dense:
                    # first chromosome: EVERY reference transcript is transcript<k>.<chr>.nnic with consecutive k (second: .nic), so that the
                    # first numbers a fresh run would hand out are all taken
                    per_chr_t[g.chrom] += 1
                    id_map[t.id] = "transcript%d.%s.%s" % (per_chr_t[g.chrom], g.chrom, dense)
                elif rng.random() < 0.5 and not (genes_only and g.chrom == w.chrom_order[2]):
                    per_chr_t[g.chrom] += 1
                    num = per_chr_t[g.chrom] if rng.random() < 0.7 else 60 + per_chr_t[g.chrom]
                    id_map[t.id] = "transcript%d.%s.%s" % (num, g.chrom, rng.choice(("nic", "nnic")))
                for e in t.exons:
                    k = (g.chrom, e[0], e[1], t.strand)
                    if k in exon_ids:
                        continue
                    c = rng.random()
                    if c < 0.45:
                        per_chr_e[g.chrom] += 1
                        exon_ids[k] = "%s.%d" % (g.chrom, per_chr_e[g.chrom])
                    elif c < 0.6:
                        exon_ids[k] = "ENSE%07d" % rng.randint(1, 9999999)
                    # else: no exon_id attribute
    return w, id_map, exon_ids


def check_outputs(chk, o, w, id_map, exon_ids, annotated, wit, desc):
    ref_t = {}
    for t in w.all_transcripts():
        ref_t[id_map.get(t.id, t.id)] = (t.chrom, t.strand, tuple(t.exons))
    ref_g = set(id_map.get(g.id, g.id) for g in w.genes if g.transcripts) if annotated else set()
    ref_g_span = {id_map.get(g.id, g.id): (g.chrom, g.start, g.end, g.strand) for g in w.genes if g.transcripts} if annotated else {}
    if not annotated:
        ref_t = {}
    files = [("transcript_models.gtf", o.models())]
    if annotated:
        files.append(("extended_annotation.gtf", o.extended()))
    exon_key_to_ids = defaultdict(set)
    id_to_exon_keys = defaultdict(set)
    n_exons_multi = 0
    for fname, gm in files:
        for tid, recs in gm.transcript_recs.items():
            chk.note()
            if len(recs) != 1:
                chk.violation("duplicate-transcript-id:" + fname, "%s: transcript id %s has %d transcript records in %s" % (desc, tid, len(recs), fname), wit)
        for tid, t in gm.transcripts.items():
            if len(t["chrs"]) > 1 or len(t["strands"]) > 1 or len(t["genes"]) > 1:
                chk.violation("transcript-id-on-several-loci:" + fname, "%s: %s has exons on %s %s genes %s" % (desc, tid, t["chrs"], t["strands"], t["genes"]), wit)
            if tid not in gm.transcript_recs:
                chk.violation("exons-without-transcript-record:" + fname, "%s: %s" % (desc, tid), wit)
            gid = t["gene"]
            if gid in ref_g_span and tid not in ref_t:
                gc, gs, ge, gstr = ref_g_span[gid]
                ex_ = sorted(t["exons"])
                if gc != t["chr"] or ex_[-1][1] < gs or ex_[0][0] > ge:
                    chk.violation("novel-id-collides-with-reference-id:gene", "%s: novel transcript %s (%s:%d-%d) carries gene id %s which belongs to the reference gene at %s:%d-%d (%s)" %
                                  (desc, tid, t["chr"], ex_[0][0], ex_[-1][1], gid, gc, gs, ge, fname), wit)
            if tid in ref_t:
                rc, rs, rex = ref_t[tid]
                if (t["chr"], t["strand"], tuple(sorted(t["exons"]))) != (rc, rs, rex):
                    chk.violation("novel-id-collides-with-reference-id:transcript", "%s: %s is a reference id but is printed with %s %s %s in %s" %
                                  (desc, tid, t["chr"], t["strand"], sorted(t["exons"])[:3], fname), wit)
        for gid, recs in gm.gene_recs.items():
            chk.note()
            if len(recs) != 1:
                chk.violation("duplicate-gene-id:" + fname, "%s: gene id %s has %d gene records in %s" % (desc, gid, len(recs), fname), wit)
        # a novel gene must not reuse a reference gene id: a reference gene id may only contain reference or novel transcripts
        # attributed to it by IsoQuant; detectable collision = gene record chromosome differs from the reference gene's
        for r in gm.exon_recs:
            k = (r.chr, r.start, r.end, r.strand)
            eid = r.attrs.get("exon_id")
            if eid is None:
                chk.violation("exon-without-id:" + fname, "%s: exon %s has no exon_id" % (desc, k), wit)
                continue
            exon_key_to_ids[k].add(eid)
            id_to_exon_keys[eid].add(k)
    for k, ids in exon_key_to_ids.items():
        chk.note()
        if len(ids) > 1:
            chk.violation("exon-with-several-ids", "%s: exon %s carries exon_ids %s" % (desc, k, sorted(ids)), wit)
        if annotated and k in exon_ids and exon_ids[k] not in ids:
            chk.violation("reference-exon-id-not-preserved", "%s: exon %s has reference exon_id %s, printed %s" % (desc, k, exon_ids[k], sorted(ids)), wit)
    for eid, keys in id_to_exon_keys.items():
        if len(keys) > 1:
            refk = [k for k in keys if exon_ids.get(k) == eid]
            chk.violation("exon-id-on-several-exons" + (":collides-with-reference-exon-id" if refk else ""),
                          "%s: exon_id %s is used for %s" % (desc, eid, sorted(keys)[:3]), wit)
    # exons seen at least twice (several transcripts / both files)
    seen_twice = 0
    counts = defaultdict(int)
    for fname, gm in files:
        for r in gm.exon_recs:
            counts[(r.chr, r.start, r.end, r.strand)] += 1
    seen_twice = sum(1 for v in counts.values() if v >= 2)
    novel_t = [tid for tid in files[0][1].transcripts if tid not in ref_t]
    by_coord = defaultdict(set)
    for k in exon_key_to_ids:
        by_coord[k[1:]].add(k[0])
    chk.count("exons_with_same_coordinates_on_several_chromosomes", sum(1 for v in by_coord.values() if len(v) > 1))
    return seen_twice, len(novel_t), len(exon_key_to_ids)


def check_log(chk, evs, wit, desc):
    per_storage = defaultdict(dict)
    rev = defaultdict(dict)
    n = 0
    for e in evs:
        if e["k"] != "get_id":
            continue
        n += 1
        st = (e["pid"], e["storage"])
        key = (e["chr"], tuple(e["feature"][:2]), e["strand"])
        eid = str(e["id"])
        if key in per_storage[st] and per_storage[st][key] != eid:
            chk.violation("get_id-not-functional", "%s: key %s answered %s and %s" % (desc, key, per_storage[st][key], eid), wit)
        per_storage[st][key] = eid
        if eid in rev[st] and rev[st][eid] != key:
            chk.violation("get_id-not-injective", "%s: id %s answered for %s and %s" % (desc, eid, rev[st][eid], key), wit)
        rev[st][eid] = key
    return n


def run(chk, scratch):
    thorough = chk.tier == "thorough"
    chk.rule = ("CLI runs on 3-chromosome worlds with hidden (novel) isoforms; reference annotations with plain ids and with IsoQuant-style "
                "transcript/gene/exon ids (numbers below and above what a fresh run allocates, other exon_id styles, exons without exon_id), "
                "loci with identical coordinates on all chromosomes, sequence names containing dots, annotation-free runs, threads 1 and 3; every id of both output GTFs judged + get_id call log. "
                "non-trivial = distinct (run, exon) pairs printed at least twice")
    n_seeds = 10 if thorough else 2
    jobs = []
    for si in range(n_seeds):
        for mode in ("collide", "plain", "free"):
            jobs.append((chk.seed * 50 + si, mode, 1 if (si + len(mode)) % 2 else 3))
    # the colliding reference once more as GFF3 whose transcripts are typed mRNA (an extended annotation passed through a converter)
    jobs.append((chk.seed * 50, "collide-gff3", 1))
    jobs.append((chk.seed * 50 + 1, "collide-genes-only", 2))

    def one(job):
        seed, mode, threads = job
        d = os.path.join(scratch, "w%d_%s" % (seed, mode))
        w, id_map, exon_ids = make_world(seed, "genes-only" if mode == "collide-genes-only" else mode.startswith("collide"))
        os.makedirs(d)
        w.write_fasta(os.path.join(d, "g.fa"))
        w.write_gtf(os.path.join(d, "a.gtf"), id_map=id_map, exon_ids=exon_ids if mode in ("collide", "collide-genes-only") else None)
        if mode == "collide-gff3":
            w.write_gff3(os.path.join(d, "a.gff3"), id_map=id_map, exon_ids=exon_ids)
        w.write_bam(os.path.join(d, "r.bam"))
        out = os.path.join(d, "out")
        ev = os.path.join(d, "ev")
        strategy = ["--model_construction_strategy", "sensitive_ont", "--report_novel_unspliced", "true"]
        if (seed + threads) % 2 == 0:
            strategy += ["--polya_requirement", "never"]      # clusters without tails yield models too (a reference isoform seen from two clusters)
        if mode == "collide-gff3":
            a_ = pipeline.std_args(d, out, threads=threads, extra=strategy)
            a_[a_.index("-g") + 1] = os.path.join(d, "a.gff3")
            r = runner.run_isoquant(a_, os.path.join(d, "home"), mon=["ids"], events=ev)
            return job, d, w, id_map, exon_ids, out, ev, r
        r = pipeline.run(d, out, threads=threads, annotated=(mode != "free"), extra=strategy, mon=["ids"], events=ev)
        return job, d, w, id_map, exon_ids, out, ev, r
    total_twice = 0
    total_novel = 0
    log_calls = 0
    for job, d, w, id_map, exon_ids, out, ev, r in runner.parallel(one, jobs, workers=8):
        seed, mode, threads = job
        desc = "world=%d mode=%s threads=%d" % (seed, mode, threads)
        wit = {"world_seed": seed, "mode": mode, "threads": threads}
        if r["rc"] is None:
            chk.inconclusive.append("watchdog expired: " + desc)
            continue
        if r["rc"] != 0:
            chk.violation("run-failed:" + mode, "run failed (%s): %s" % (desc, pipeline.fail_text(r)), wit)
            continue
        o = pipeline.Outputs(out)
        twice, novel, nex = check_outputs(chk, o, w, id_map, exon_ids if mode.startswith("collide") else {}, mode != "free", wit, desc)
        total_twice += twice
        total_novel += novel
        log_calls += check_log(chk, runner.load_events(ev), wit, desc)
        chk.sample({"run": desc, "novel_transcripts": novel, "distinct_exons": nex, "exons_printed_twice_or_more": twice,
                    "reference_ids_renamed": len(id_map), "reference_exon_ids": len(exon_ids)}, limit=4)
        if chk.violations and not getattr(chk, "witness_files", None):
            chk.witness_files = [os.path.join(d, f) for f in ("g.fa", "a.gtf", "r.bam", "r.bam.bai")]
            chk.witness_files_keep = d
        else:
            shutil.rmtree(d, ignore_errors=True)
    chk.nontrivial_count = total_twice
    chk.extra.update({"exons_printed_at_least_twice": total_twice, "novel_transcripts_seen": total_novel, "get_id_calls_logged": log_calls})
    chk.assumptions = ["GTF parser in vlib/parse.py", "a reference id printed with non-reference coordinates is taken as a novel/reference id collision"]
    chk.inconclusive_if(total_novel == 0, "no novel transcript was produced")
    chk.inconclusive_if(log_calls == 0, "get_id monitor never fired")
    chk.inconclusive_if(chk.extra.get("exons_with_same_coordinates_on_several_chromosomes", 0) == 0, "no exon printed with equal coordinates on two chromosomes")
    chk.min_nontrivial = 20
