"""C20 — concurrent runs under one user account do not interfere.

Monitor: 2..16 launcher processes released together under ONE HOME (separate output folders, equal or different
annotations).  The `cache` monitor wraps builtins.open for paths under $HOME/.config/IsoQuant and json.load/json.dump on
them: it logs every read (parse ok / error), every truncating open and every dump, and injects seeded delays between the
preceding load and the truncating re-open and between truncation and dump — points where the OS may pre-empt a process.
Oracle: every run exits 0; its output tree equals the tree of the same run executed alone; every logged read of a cache
file parsed; the database a run ends up using has exactly the transcripts of its own GTF.  The index / BED / alignment
caches of read_mapper (the FASTQ path cannot run here: no aligner installed) are driven through their real
find_stored_* / store_* functions from concurrent processes with stub files.
"""
import json
import os
import re
import shutil
import subprocess
import sys
import time

from vlib import runner, pipeline, world

LEVEL = "exploration"


N_EXP = 8      # experiments of the long run of the superseded-record scenario


def make_inputs(d, seed, k):
    w = world.standard_world(seed + k, n_chroms=2, genes_per_chrom=3, hidden=False)
    world.add_standard_reads(w, per_transcript=3, jitter=2)
    pipeline.write_world(w, d)
    # the same annotation with every second gene described by exon records only (used by the superseded-record scenario)
    w.write_gtf(os.path.join(d, "partial.gtf"), no_meta_genes={g.id for i_, g in enumerate(w.genes) if g.transcripts and i_ % 2 == 0})
    return set(t.id for t in w.all_transcripts())


def overlap_windows(evs):
    """number of processes whose read-modify-write windows on db_config.json overlapped another one's"""
    wins = []
    by_pid = {}
    for e in evs:
        if not str(e.get("path", "")).startswith("db_config.json"):
            continue
        by_pid.setdefault(e["pid"], []).append(e)
    for pid, es in by_pid.items():
        loads = [e["t"] for e in es if e["k"] == "cache_load"]
        dumps = [e["t"] for e in es if e["k"] == "cache_dump"]
        if loads and dumps:
            wins.append((min(loads), max(dumps)))
    n = 0
    for i, a in enumerate(wins):
        if any(j != i and not (b[1] < a[0] or b[0] > a[1]) for j, b in enumerate(wins)):
            n += 1
    return n, len(wins)


def mapper_cache_round(chk, scratch, rid, nproc, seed):
    """drive read_mapper's JSON caches (index / BED / alignment) from concurrent processes through the real functions"""
    d = os.path.join(scratch, "mapper%d" % rid)
    os.makedirs(d)
    home = os.path.join(d, "home")
    os.makedirs(home)
    script = os.path.join(d, "drv.py")
    with open(script, "w") as f:
        f.write('''
import os, sys, json, time, types
sys.path.insert(0, os.environ["VERIF_REPO"]); sys.path.insert(1, os.environ["VERIF_ROOT"])
os.environ["ABLAB_ISOQUANT_VERIF"] = "1"
from vlib import monitors
monitors.install_post(["cache"], None)
import isoquant
from src import read_mapper as rm
k = int(sys.argv[1]); d = sys.argv[2]
args = types.SimpleNamespace(reference=os.path.join(d, "ref%d.fa" % (k % 3)), genedb=os.path.join(d, "ann%d.db" % (k % 3)),
                             data_type="nanopore", index=os.path.join(d, "idx%d.mmi" % (k % 3)))
isoquant.set_configs_directory(args)
for p in (args.reference, args.genedb, args.index):
    if not os.path.exists(p):
        open(p, "w").write("x")
bad = []
while time.time() < float(sys.argv[3]):
    time.sleep(0.001)
for it in range(6):
    try:
        idx = os.path.join(d, "own%d.mmi" % k); open(idx, "w").write("i")
        rm.find_stored_index(args); rm.store_index(idx, args)
        got = rm.find_stored_index(args)
        bed = os.path.join(d, "own%d.bed" % k); open(bed, "w").write("b")
        rm.find_stored_bed(args); rm.store_bed(bed, args); rm.find_stored_bed(args)
        fq = os.path.join(d, "reads%d.fq" % k); open(fq, "w").write("f")
        bam = os.path.join(d, "aln%d.bam" % k); open(bam, "w").write("a")
        rm.find_stored_alignment(fq, None, args); rm.store_alignment(bam, fq, None, args)
        got = rm.find_stored_alignment(fq, None, args)
        if got is not None and os.path.abspath(got) != os.path.abspath(bam):
            bad.append("alignment cache returned %s for %s" % (got, fq))
    except Exception as e:
        bad.append("%s: %r" % (type(e).__name__, e))
print(json.dumps(bad))
''')
    start_at = time.time() + 1.0
    procs = []
    for k in range(nproc):
        env = dict(os.environ)
        env.update({"HOME": home, "VERIF_REPO": runner.REPO, "VERIF_ROOT": runner.VERIF, "PYTHONHASHSEED": "0",
                    "VERIF_EVENTS": os.path.join(d, "ev"), "VERIF_RUN_ID": str(k),
                    "VERIF_MON_CFG": json.dumps({"cache_seed": seed, "cache_max_delay": 0.01})})
        os.makedirs(os.path.join(d, "ev"), exist_ok=True)
        procs.append(subprocess.Popen([runner.PY, script, str(k), d, str(start_at)], env=env, stdout=subprocess.PIPE,
                                      stderr=subprocess.PIPE))
    for k, p in enumerate(procs):
        try:
            out, err = p.communicate(timeout=120)
        except subprocess.TimeoutExpired:
            p.kill()
            chk.inconclusive.append("watchdog expired in a read_mapper cache driver")
            continue
        chk.note()
        bad = []
        try:
            bad = json.loads(out.decode().strip().splitlines()[-1])
        except Exception:
            bad = ["driver died: " + err.decode()[-300:]]
        for b in bad:
            kind = b.split(":")[0]
            chk.violation("mapper-cache:" + kind, "read_mapper cache, %d concurrent processes: %s" % (nproc, b[:300]), {"procs": nproc})
    evs = runner.load_events(os.path.join(d, "ev"))
    chk.count("mapper_cache_events", len(evs))
    shutil.rmtree(d, ignore_errors=True)


def run(chk, scratch):
    thorough = chk.tier == "thorough"
    # the runs' temporary folder lies on ANOTHER file system than their HOME when one is available (tmpfs /dev/shm against the scratch disk, as
    # on clusters with an NFS home): a file prepared elsewhere and "moved" over a cache file would be copied, not renamed
    tmp_other = None
    try:
        if os.path.isdir("/dev/shm") and os.stat("/dev/shm").st_dev != os.stat(scratch).st_dev:
            import tempfile as _tf
            tmp_other = _tf.mkdtemp(prefix="verif_c20_tmp_", dir="/dev/shm")
            os.environ["TMPDIR"] = tmp_other
    except OSError:
        tmp_other = None
    chk.extra["tmpdir_on_another_file_system"] = bool(tmp_other)
    try:
        _run(chk, scratch, thorough)
    finally:
        if tmp_other:
            os.environ.pop("TMPDIR", None)
            shutil.rmtree(tmp_other, ignore_errors=True)


def _run(chk, scratch, thorough):
    chk.rule = ("rounds of 2..16 simultaneously released IsoQuant runs under one HOME (fresh or pre-populated), equal or different annotations, "
                "seeded delays injected at the load->truncate and truncate->dump gaps of the JSON cache files; plus rounds of concurrent "
                "read_mapper cache drivers. non-trivial = rounds in which at least two processes' read-modify-write windows on db_config.json overlapped")
    rounds = []
    if thorough:
        for i in range(40):
            rounds.append({"n": (2, 3, 4, 8, 12, 16)[i % 6], "same_gtf": i % 3 == 0, "fresh_home": i % 2 == 0,
                           "delay": (0.0, 0.02, 0.05, 0.2)[i % 4], "shared_db": i % 5 == 4, "create_delay": 1.5 if i % 8 == 6 else 0,
                           "unindexed_ref": i % 3 == 0 and i % 2 == 1})
    else:
        rounds = [{"n": 8, "same_gtf": False, "fresh_home": True, "delay": 0.05},
                  {"n": 8, "same_gtf": True, "fresh_home": True, "delay": 0.02, "unindexed_ref": True},
                  {"n": 6, "same_gtf": False, "fresh_home": False, "delay": 0.2},
                  {"n": 12, "same_gtf": False, "fresh_home": True, "delay": 0.0},
                  {"n": 4, "same_gtf": False, "fresh_home": False, "delay": 0.05},
                  {"n": 16, "same_gtf": False, "fresh_home": True, "delay": 0.02},
                  {"n": 8, "same_gtf": False, "fresh_home": True, "delay": 0.02, "shared_db": True},
                  {"n": 4, "same_gtf": False, "fresh_home": True, "delay": 0.02, "create_delay": 1.5}]
    # inputs: a pool of 16 different small worlds + solo outputs
    pool = os.path.join(scratch, "pool")
    os.makedirs(pool)
    n_inputs = 16
    tsets = {}
    for k in range(n_inputs):
        tsets[k] = make_inputs(os.path.join(pool, "in%d" % k), chk.seed * 1000, k)

    def solo(k):
        d = os.path.join(pool, "in%d" % k)
        r = pipeline.run(d, os.path.join(d, "solo"), threads=1, home=os.path.join(d, "home_solo"))
        return k, r
    for k, r in runner.parallel(solo, list(range(n_inputs)), workers=8):
        if r["rc"] != 0:
            raise runner.Inconclusive("solo run %d failed: %s" % (k, pipeline.fail_text(r)))
    overlapping_rounds = 0
    parse_errors = 0
    for ri, rd in enumerate(rounds):
        rdir = os.path.join(scratch, "round%d" % ri)
        home = os.path.join(rdir, "home")
        os.makedirs(home)
        # rounds with "shared_db": every run names the same, not yet existing, folder for converted annotation databases (all annotations
        # are called a.gtf); the monitor delays its creation as it delays the creation of the per-user folder
        if not rd["fresh_home"]:
            # pre-populate the cache with a finished run of input 15
            r0 = pipeline.run(os.path.join(pool, "in15"), os.path.join(rdir, "pre"), threads=1, home=home)
        if rd.get("unindexed_ref"):
            # the runs of the round name the same reference file, which has no index yet (it is built next to the file by whoever comes
            # first; run 0 starts 0.4 s early and is pre-empted for five seconds right after it has opened the index for writing)
            os.makedirs(os.path.join(rdir, "ref"))
            shutil.copy(os.path.join(pool, "in0", "g.fa"), os.path.join(rdir, "ref", "g.fa"))
        start_at = time.time() + 1.5
        ev = os.path.join(rdir, "ev")

        def one(j):
            k = 0 if rd["same_gtf"] else j % n_inputs
            d = os.path.join(pool, "in%d" % k)
            out = os.path.join(rdir, "out%d" % j)
            # a tiny shim delays the start until the common release time
            extra = ["--genedb_output", os.path.join(rdir, "shared_db")] if rd.get("shared_db") else []
            a_ = pipeline.std_args(d, out, threads=1, extra=extra)
            if rd.get("unindexed_ref"):
                a_[a_.index("-r") + 1] = os.path.join(rdir, "ref", "g.fa")
            r = runner.run_isoquant(a_, home, mon=["cache"],
                                    cfg={"cache_seed": chk.seed * 100 + ri, "cache_max_delay": rd["delay"],
                                         # rounds with "create_delay": run 0 starts 0.4 s before the others and is pre-empted for that long right
                                         # after it has CREATED a file of the cache folder (the file exists and is still empty)
                                         "cache_create_delay": rd.get("create_delay", 0) if j == 0 else 0,
                                         "index_write_delay": 5.0 if rd.get("unindexed_ref") and j == 0 else 0,
                                         "mkdir_delay_paths": [os.path.join(rdir, "shared_db")]}, events=ev,
                                    env_extra={"VERIF_RUN_ID": str(j), "VERIF_START_AT": str(start_at - (0.4 if j == 0 and (rd.get("create_delay") or rd.get("unindexed_ref")) else 0))}, cwd=rdir)
            return j, k, out, r
        results = runner.parallel(one, list(range(rd["n"])), workers=rd["n"])
        desc = "round %d: %d runs, %s annotation, %s HOME, max delay %.2fs" % (
            ri, rd["n"], "same" if rd["same_gtf"] else "different", "fresh" if rd["fresh_home"] else "pre-populated", rd["delay"])
        evs = runner.load_events(ev)
        n_over, n_win = overlap_windows(evs)
        if n_over >= 2:
            overlapping_rounds += 1
            chk.nontrivial.add(("round", ri, rd["n"], rd["same_gtf"], rd["fresh_home"], rd["delay"]))
        if rd.get("unindexed_ref"):
            chk.count("reference_index_writes_observed_while_other_runs_started", len([e for e in evs if e["k"] == "index_open_w"]))
        bad_loads = [e for e in evs if e["k"] == "cache_load" and not e["ok"]]
        parse_errors += len(bad_loads)
        wit = dict(rd)
        wit["round"] = ri
        for e in bad_loads[:3]:
            chk.violation("cache-read-half-written:" + e["path"], "%s: a run read %s while it was not valid JSON (%s)" % (desc, e["path"], e["err"][:100]), wit)
        for j, k, out, r in results:
            chk.note()
            if r["rc"] is None:
                chk.inconclusive.append("watchdog expired: %s run %d" % (desc, j))
                continue
            if r["rc"] != 0:
                m = re.findall(r"(\w+Error)", r["out"])
                chk.violation("concurrent-run-failed:" + (m[-1] if m else "exit%s" % r["rc"]),
                              "%s: run %d exited %s: %s" % (desc, j, r["rc"], r["out"][-400:].replace("\n", " | ")), wit)
                continue
            diffs = runner.compare_trees(os.path.join(pool, "in%d" % k, "solo", pipeline.PREFIX), os.path.join(out, pipeline.PREFIX))
            for rel, why in diffs[:4]:
                chk.violation("concurrent-output-differs:" + (rel.split(".", 1)[1] if "." in rel else rel),
                              "%s: run %d file %s %s compared with the same run executed alone" % (desc, j, rel, why), wit)
            # which database did the run use?
            m = re.search(r"Using (\S+\.db)", r["out"])
            db = m.group(1) if m else os.path.join(out, "a.db")
            try:
                import gffutils
                ids = set(f.id for f in gffutils.FeatureDB(db).features_of_type("transcript"))
                if ids != tsets[k]:
                    chk.violation("wrong-database-used", "%s: run %d used %s whose transcripts differ from its own GTF" % (desc, j, db), wit)
                chk.count("databases_verified")
            except Exception as e:
                chk.violation("database-unreadable", "%s: run %d used %s: %r" % (desc, j, db, e), wit)
        # final state of the shared file
        cfgp = os.path.join(home, ".config", "IsoQuant", "db_config.json")
        try:
            entries = json.load(open(cfgp))
        except Exception as e:
            entries = {}
            chk.violation("cache-file-left-invalid", "%s: db_config.json is not valid JSON after the round: %r" % (desc, e), wit)
        # every record the round leaves behind names a database converted from THAT annotation (a later run would be handed it)
        for gtf_path, rec in (entries.items() if isinstance(entries, dict) else ()):
            m_ = re.search(r"/in(\d+)/a\.gtf$", gtf_path)
            dbp = rec.get("genedb") if isinstance(rec, dict) else None
            if not m_ or not dbp or not os.path.exists(dbp):
                continue
            try:
                import gffutils
                ids = set(f.id for f in gffutils.FeatureDB(dbp).features_of_type("transcript"))
            except Exception:
                continue
            chk.count("cache_records_verified")
            if ids != tsets[int(m_.group(1))]:
                chk.violation("cache-record-names-database-of-another-annotation", "%s: db_config.json files %s under %s, whose transcripts differ from that annotation" %
                              (desc, dbp, gtf_path), wit)
        chk.sample({"round": desc, "rmw_windows": n_win, "overlapping": n_over, "cache_events": len(evs), "parse_errors": len(bad_loads)}, limit=6)
        shutil.rmtree(rdir, ignore_errors=True)
    # a cached database that is REWRITTEN by a later run of another annotation with the same file name into the same output folder:
    # a third run of the first annotation must not be handed that file
    for si, (k1, k2) in enumerate(((0, 1), (2, 3)) if thorough else ((0, 1),)):
        rdir = os.path.join(scratch, "stale%d" % si)
        home = os.path.join(rdir, "home")
        os.makedirs(home)
        d1, d2 = os.path.join(pool, "in%d" % k1), os.path.join(pool, "in%d" % k2)
        out_a, out_b = os.path.join(rdir, "OUT_A"), os.path.join(rdir, "OUT_B")
        seq = [("A1", d1, out_a, k1), ("A2", d2, out_a, k2), ("B", d1, out_b, k1)]
        desc = "stale-database sequence %d: annotation %d -> OUT_A, annotation %d (same file name) -> OUT_A --force, annotation %d -> OUT_B" % (si, k1, k2, k1)
        wit = {"scenario": "stale-database", "inputs": [k1, k2]}
        for name, d, out, k in seq:
            r = pipeline.run(d, out, threads=1, home=home)
            chk.note()
            if r["rc"] != 0:
                chk.violation("concurrent-run-failed:stale-database:" + name, "%s: run %s exited %s: %s" % (desc, name, r["rc"], pipeline.fail_text(r)), wit)
                break
            for rel, why in runner.compare_trees(os.path.join(pool, "in%d" % k, "solo", pipeline.PREFIX), os.path.join(out, pipeline.PREFIX))[:4]:
                chk.violation("stale-database:output-differs:" + (rel.split(".", 1)[1] if "." in rel else rel),
                              "%s: run %s file %s %s compared with the same run executed alone" % (desc, name, rel, why), wit)
            m = re.search(r"Using (\S+\.db)", r["out"])
            db = m.group(1) if m else os.path.join(out, "a.db")
            try:
                import gffutils
                ids = set(f.id for f in gffutils.FeatureDB(db).features_of_type("transcript"))
                if ids != tsets[k]:
                    chk.violation("wrong-database-used:stale-database", "%s: run %s used %s whose transcripts differ from its own GTF" % (desc, name, db), wit)
                chk.count("databases_verified")
            except Exception as e:
                chk.violation("database-unreadable", "%s: run %s used %s: %r" % (desc, name, db, e), wit)
        chk.count("stale_database_sequences")
        shutil.rmtree(rdir, ignore_errors=True)
    # a run that works with a database found through the cache (converted by an earlier, finished run A into A's folder) while another run
    # on the same annotation, whose options make the record unusable for it (--complete_genedb off), converts again and replaces the record
    # variant 'into-A': C is a --force re-run INTO A's output folder (B and C still have separate output folders), so it rebuilds the very file B works with
    for qi, (k, c_out) in enumerate(((4, "OUT_C"), (5, "OUT_C"), (4, "OUT_A"), (5, "OUT_A")) if thorough else ((4, "OUT_C"), (4, "OUT_A"))):
        rdir = os.path.join(scratch, "superseded%d" % qi)
        home = os.path.join(rdir, "home")
        os.makedirs(home)
        # the inputs of this scenario: input k with the partly exon-only annotation (a conversion made with --complete_genedb lacks those
        # genes, a conversion without the option infers them: C must not be handed A's database)
        d = os.path.join(rdir, "inp")
        os.makedirs(d)
        for f_ in ("g.fa", "g.fa.fai", "r.bam", "r.bam.bai"):
            os.symlink(os.path.join(pool, "in%d" % k, f_), os.path.join(d, f_))
        shutil.copy(os.path.join(pool, "in%d" % k, "partial.gtf"), os.path.join(d, "a.gtf"))
        lst = os.path.join(rdir, "exps.list")
        with open(lst, "w") as f:
            for e in range(N_EXP):
                f.write("#EX%d\n%s\n" % (e, os.path.join(d, "r.bam")))
        desc = "superseded-record scenario %d: A (finished) converted annotation %d; B (%d experiments) uses A's database; C converts it again without --complete_genedb%s" % (
            qi, k, N_EXP, " as a --force re-run into A's output folder" if c_out == "OUT_A" else "")
        wit = {"scenario": "superseded-record", "input": k, "c_output_folder": c_out}
        into_a = c_out == "OUT_A"
        solo_b = runner.run_isoquant(pipeline.std_args(d, os.path.join(rdir, "solo_b"), threads=1, bam_list=lst), os.path.join(rdir, "home_b"))
        solo_c = runner.run_isoquant(pipeline.std_args(d, os.path.join(rdir, "solo_c"), threads=1, complete=False), os.path.join(rdir, "home_c"))
        ra = pipeline.run(d, os.path.join(rdir, "OUT_A"), threads=1, home=home)
        if any(r["rc"] != 0 for r in (solo_b, solo_c, ra)):
            chk.inconclusive.append("%s: a preparatory run failed" % desc)
            continue
        db_a = os.path.join(rdir, "OUT_A", "a.db")
        t0 = time.time() + 1.0

        def bc(which):
            if which == "B":
                return which, runner.run_isoquant(pipeline.std_args(d, os.path.join(rdir, "OUT_B"), threads=1, bam_list=lst), home, mon=["cache"],
                                                  cfg={"cache_seed": 1, "cache_max_delay": 0.0}, env_extra={"VERIF_RUN_ID": "B", "VERIF_START_AT": str(t0)}, cwd=rdir)
            # C starts as soon as B has reported the database it found through the cache
            logp = os.path.join(rdir, "OUT_B", "isoquant.log")
            for _ in range(400):
                if os.path.exists(logp) and db_a in open(logp).read():
                    break
                time.sleep(0.05)
            return which, runner.run_isoquant(pipeline.std_args(d, os.path.join(rdir, c_out), threads=1, complete=False), home, mon=["cache"],
                                              cfg={"cache_seed": 2, "cache_max_delay": 0.0}, env_extra={"VERIF_RUN_ID": "C"}, cwd=rdir)
        res = dict(runner.parallel(bc, ["B", "C"], workers=2))
        used_a = ("Using " + db_a) in res["B"]["out"] or db_a in res["B"]["out"]
        if not used_a:
            chk.inconclusive.append("%s: B did not pick A's database from the cache" % desc)
        for which, solo_out in (("B", "solo_b"), ("C", "solo_c")):
            r = res[which]
            chk.note()
            if r["rc"] is None:
                chk.inconclusive.append("watchdog expired: %s run %s" % (desc, which))
                continue
            if r["rc"] != 0:
                m = re.findall(r"(\w+Error)", r["out"])
                chk.violation("concurrent-run-failed:superseded-record%s:" % (":database-rebuilt-in-place" if into_a else "") + (m[-1] if m else "exit%s" % r["rc"]),
                              "%s: run %s exited %s: %s" % (desc, which, r["rc"], r["out"][-400:].replace("\n", " | ")), wit)
                continue
            prefixes = ["EX%d" % e for e in range(N_EXP)] if which == "B" else [pipeline.PREFIX]
            for pf in prefixes:
                for rel, why in runner.compare_trees(os.path.join(rdir, solo_out, pf), os.path.join(rdir, c_out if which == "C" else "OUT_B", pf))[:4]:
                    chk.violation("concurrent-output-differs:superseded-record%s:" % (":database-rebuilt-in-place" if into_a else "") + (rel.split(".", 1)[1] if "." in rel else rel),
                                  "%s: run %s file %s/%s %s compared with the same run executed alone" % (desc, which, pf, rel, why), wit)
        # observation only (A is not one of the simultaneously executing runs the statement speaks about)
        chk.extra.setdefault("database_of_finished_run_still_present", []).append(os.path.exists(db_a))
        chk.count("superseded_record_scenarios", 1 if used_a else 0)
        shutil.rmtree(rdir, ignore_errors=True)
    for mi in range(6 if thorough else 2):
        mapper_cache_round(chk, scratch, mi, (4, 8, 12)[mi % 3], chk.seed * 10 + mi)
    chk.extra.update({"rounds": len(rounds), "rounds_with_overlapping_windows": overlapping_rounds, "cache_parse_errors_seen": parse_errors})
    chk.assumptions = ["lost cache entries are not a violation (cache efficiency is outside the property)",
                       "delays are injected only where a process can really be pre-empted (between two system calls)"]
    chk.inconclusive_if(overlapping_rounds == 0, "no round with overlapping read-modify-write windows")
    chk.inconclusive_if(chk.extra.get("superseded_record_scenarios", 0) == 0, "no scenario in which a run worked with a cached database while its record was replaced")
    chk.min_nontrivial = 2
