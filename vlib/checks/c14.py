"""C14 — corrected alignments are well-formed BED12; junctions move only onto annotated ones.

Monitor: offline checker over *.corrected_reads.bed of CLI runs versus the input BAM (exons via an independent CIGAR walk),
read_assignments.tsv (assigned isoforms, events, exons column) and the GTF; for annotation-free runs with --illumina_bam,
versus the short-read junction set.  Oracle: BED12 arithmetic; end preservation; allowed splice-site sets (this file).
"""
import os
import shutil
from collections import defaultdict

import pysam

from vlib import runner, pipeline, world, world2, parse
from vlib.world import World, Gene, Transcript, Read

LEVEL = "exploration"

STRATEGY_FLAGS = {  # fuzzy, intron_shifts, skipped_exons, terminal_exons, fake_terminal_exons, microintron
    "none": (False, False, False, False, False, False),
    "default_pacbio": (True, False, True, False, False, True),
    "conservative_ont": (True, False, True, False, False, False),
    "default_ont": (True, False, True, False, True, True),
    "all": (True, True, True, True, True, True),
    "assembly": (False, False, True, False, False, False),
}


def event_world(seed, twins=True):
    """Genes with a micro-exon, a micro-intron and short terminal exons; reads built to trigger every correction event."""
    w = World(seed)
    rng = w.rng
    for ci in range(2):
        chrom = "chr%d" % (ci + 1)
        w.add_chrom(chrom, 230000)
        pos = 2000
        for gi in range(5):
            strand = rng.choice("+-")
            gid = "E%d_%d" % (ci + 1, gi + 1)
            # exon layout: short terminal (30) | normal | micro-exon (40-80) | normal | normal --micro intron (40)-- normal | short terminal (30)
            lens = [rng.randint(25, 35), rng.randint(200, 300), rng.randint(40, 80), rng.randint(200, 300), rng.randint(180, 260),
                    rng.randint(180, 260), rng.randint(25, 35)]
            gaps = [rng.randint(300, 600), rng.randint(400, 700), rng.randint(400, 700), rng.randint(500, 800), rng.randint(36, 46),
                    rng.randint(300, 600)]
            ex = []
            p = pos
            for k, L in enumerate(lens):
                ex.append((p, p + L - 1))
                p += L
                if k < len(gaps):
                    p += gaps[k]
            g = Gene(gid, chrom, strand)
            g.transcripts.append(Transcript(gid + ".t1", gid, chrom, strand, ex, True, "events"))
            # second isoform without the micro-exon and with normal terminal exons
            ex2 = [ex[1], ex[2], ex[3], ex[4], ex[5]] if gi % 2 == 0 else [ex[1], ex[3], ex[4], ex[5]]
            g.transcripts.append(Transcript(gid + ".t2", gid, chrom, strand, ex2, True, "events2"))
            for t in g.transcripts:
                for intr in t.introns:
                    w.plant_sites(chrom, intr, strand)
            w.genes.append(g)
            t1 = g.transcripts[0]
            n = 3

            def mk(exons, cls, **kw):
                if exons and all(a <= b for a, b in exons) and all(exons[i][1] + 1 < exons[i + 1][0] for i in range(len(exons) - 1)):
                    w.make_read(chrom, exons, truth={"src": t1.id, "class": cls}, **kw)
            for _ in range(n):
                mk(list(ex), "exact")
                # jitter with sequence errors next to the junction (forces the annotated site)
                j = [(ex[1][0], ex[1][1] + rng.choice((-3, 2, 4))), (ex[2][0] + rng.choice((-2, 3)), ex[2][1]), ex[3], ex[4]]
                mk(j, "jitter+errors", mismatches=0, junction_errors=True)
                mk([(ex[1][0], ex[1][1] + rng.choice((-3, 2, 4))), ex[2], ex[3]], "jitter-clean")
                # skipped micro-exon
                mk([ex[1], ex[3], ex[4]], "skipped-micro-exon")
                # micro-exon misaligned: its bases are glued to the neighbouring exon, the read intron has the length of both introns
                Lm = ex[2][1] - ex[2][0] + 1
                mk([(ex[1][0], ex[1][1] + Lm), ex[3], ex[4]], "misaligned-micro-exon-left")
                mk([ex[1], (ex[3][0] - Lm, ex[3][1]), ex[4]], "misaligned-micro-exon-right")
                # micro-intron retained
                mk([ex[3], (ex[4][0], ex[5][1]), ex[6]], "micro-intron-retained")
                # intron shift: both ends of intron 3 moved by the same k
                k = rng.choice((-40, -25, 18, 33, 50))
                mk([ex[1], ex[2], (ex[3][0], ex[3][1] + k), (ex[4][0] + k, ex[4][1])], "intron-shift")
                # fake terminal exon: a few bases split off behind a fake intron inside the next intron
                ft = [ex[3], ex[4], (ex[5][0], ex[5][1] - 40), (ex[5][1] + 60, ex[5][1] + 60 + rng.randint(12, 30))]
                mk(ft, "fake-terminal-exon-right")
                fl = [(ex[1][0] - 60 - rng.randint(12, 30), ex[1][0] - 60), (ex[1][0] + 40, ex[1][1]), ex[2], ex[3]]
                mk(fl, "fake-terminal-exon-left")
                # missed short terminal exon: read ends at the last but one exon
                mk([ex[3], ex[4], ex[5]], "missed-terminal-exon-right", polya=30 if strand == "+" else 0)
                mk([ex[1], ex[2], ex[3]], "missed-terminal-exon-left", polyt=30 if strand == "-" else 0)
                # terminal exons aligned at a wrong place (same length, inside the neighbouring intron): left, right and BOTH ends
                L1 = ex[1][1] - ex[1][0] + 1
                L5 = ex[5][1] - ex[5][0] + 1
                left_mis = (ex[1][1] + 120, ex[1][1] + 120 + L1 - 1)          # inside intron 1-2 (intron >= 400)
                right_mis = (ex[5][0] - 0, ex[5][1])                            # placeholder, replaced below
                gap45 = ex[5][0] - ex[4][1] - 1
                core = [ex[2], ex[3], ex[4]]
                if ex[2][0] - left_mis[1] > 60:
                    mk([left_mis] + core + [ex[5]], "misplaced-terminal-exon-left")
                # right: last exon (ex5) placed earlier is impossible with a micro intron before it; use ex[4] as last and move it into intron 3-4
                gap34 = ex[4][0] - ex[3][1] - 1
                L4 = ex[4][1] - ex[4][0] + 1
                right_mis = (ex[3][1] + 150, ex[3][1] + 150 + L4 - 1)
                if right_mis[1] < ex[4][0] - 60 and gap34 > L4 + 250:
                    mk([ex[1], ex[2], ex[3], right_mis], "misplaced-terminal-exon-right")
                    if ex[2][0] - left_mis[1] > 60:
                        mk([left_mis, ex[2], ex[3], right_mis], "misplaced-terminal-exon-both")
                # significant differences that must NOT be corrected
                mk([ex[1], (ex[3][0] + 120, ex[3][1]), ex[4]], "alt-site-far")
            pos = p + rng.randint(2500, 3500)
        # single-isoform genes with 100-bp terminal exons; reads whose terminal exons are aligned at the wrong place
        # (inside the neighbouring intron, same length): left only, right only and BOTH ends
        for gi in range(2):
            strand = "+-"[gi]
            gid = "T%d_%d" % (ci + 1, gi + 1)
            e0 = (pos, pos + 99)
            e1 = (pos + 2000, pos + 2199)
            e2 = (pos + 4000, pos + 4199)
            e3 = (pos + 6000, pos + 6199)
            e4 = (pos + 8000, pos + 8099)
            exs = [e0, e1, e2, e3, e4]
            g = Gene(gid, chrom, strand)
            g.transcripts.append(Transcript(gid + ".t1", gid, chrom, strand, exs, True, "terminal-events"))
            for intr in g.transcripts[0].introns:
                w.plant_sites(chrom, intr, strand)
            w.genes.append(g)
            lm = (pos + 1000, pos + 1099)
            rm = (pos + 7000, pos + 7099)
            # the tail of a read aligned as separate block(s) onto a genomic T (A) stretch next to the gene: polyT head for the '-' gene,
            # polyA tail for the '+' gene
            seq = w.chroms[chrom]
            if strand == "-":
                for q in range(pos - 600, pos - 570):
                    seq[q - 1] = "T"
                tail_block = (pos - 600, pos - 571)
                tail_reads = [[tail_block, e0, e1, e2], [tail_block, (e0[0], e0[1]), e1, e2, e3]]
            else:
                for q in range(pos + 8600, pos + 8630):
                    seq[q - 1] = "A"
                tail_block = (pos + 8600, pos + 8629)
                tail_reads = [[e2, e3, e4, tail_block], [e1, e2, e3, e4, tail_block]]
            for tr in tail_reads:
                for _ in range(2):
                    w.make_read(chrom, tr, flag=16 if strand == "-" else 0, truth={"src": gid + ".t1", "class": "tail-aligned-as-terminal-exon"})
            for _ in range(3):
                w.make_read(chrom, exs, truth={"src": gid + ".t1", "class": "exact"})
                w.make_read(chrom, [lm, e1, e2, e3, e4], truth={"src": gid + ".t1", "class": "misplaced-terminal-exon-left"})
                w.make_read(chrom, [e0, e1, e2, e3, rm], truth={"src": gid + ".t1", "class": "misplaced-terminal-exon-right"})
                w.make_read(chrom, [lm, e1, e2, e3, rm], truth={"src": gid + ".t1", "class": "misplaced-terminal-exon-both"})
            pos = pos + 8100 + rng.randint(2500, 3500)
    # reads that are AMBIGUOUS between two isoforms which number the affected intron differently (the second isoform starts inside the
    # third exon of the first, two introns further downstream): a retained 30-bp micro-intron, a skipped 12-bp micro-exon
    for ci, chrom in enumerate(w.chrom_order):
        p0 = max([g.end for g in w.genes if g.chrom == chrom] + [1000]) + 2500
        for k, variant in enumerate(("micro-intron", "micro-exon", "micro-intron", "micro-exon")):
            if p0 + 5000 > w.chrom_len(chrom) - 8000:
                break
            strand = "+-"[(k // 2) % 2]
            e = [(p0, p0 + 200), (p0 + 700, p0 + 900), (p0 + 1500, p0 + 1900), (p0 + 2500, p0 + 2650)]
            if variant == "micro-intron":
                e += [(p0 + 2681, p0 + 2900), (p0 + 3500, p0 + 3750)]
            else:
                e += [(p0 + 3300, p0 + 3311), (p0 + 3900, p0 + 4150), (p0 + 4700, p0 + 4950)]
            gid = "AMB%d_%d" % (ci + 1, k + 1)
            g = Gene(gid, chrom, strand)
            g.transcripts.append(Transcript(gid + ".tA", gid, chrom, strand, list(e), True, "events-ambiguous"))
            g.transcripts.append(Transcript(gid + ".tB", gid, chrom, strand, [(p0 + 1700, p0 + 1900)] + e[3:], True, "events-ambiguous"))
            for intr in g.transcripts[0].introns:
                w.plant_sites(chrom, intr, strand)
            w.genes.append(g)
            for q in range(3):
                w.make_read(chrom, list(e), truth={"src": gid + ".tA", "class": "exact"})
                head = (p0 + 1750 + 5 * q, p0 + 1900)
                if variant == "micro-intron":
                    w.make_read(chrom, [head, (e[3][0], e[4][1]), (e[5][0], e[5][1] - 4 * q)], truth={"src": gid + ".tA", "class": "ambiguous-micro-intron-retained"})
                else:
                    w.make_read(chrom, [head, e[3], e[5], (e[6][0], e[6][1] - 4 * q)], truth={"src": gid + ".tA", "class": "ambiguous-skipped-micro-exon"})
            p0 = e[-1][1] + rng.randint(2500, 3500)
    # a short terminal read exon that spans an annotated micro-intron and is separated from the rest of the read by an unannotated intron:
    # the read carries a fake terminal exon AND a retained micro-intron inside it (left end: micro-intron after the first isoform exon;
    # right end: before the last one); plus the two events alone
    for ci, chrom in enumerate(w.chrom_order):
        p0 = max([g.end for g in w.genes if g.chrom == chrom] + [1000]) + 2500
        for k, side in enumerate(("left", "right", "left", "right")):
            if p0 + 3000 > w.chrom_len(chrom) - 8000:
                break
            strand = "+-"[(k // 2) % 2]
            if side == "left":
                e = [(p0 + 101, p0 + 280), (p0 + 301, p0 + 800), (p0 + 1100, p0 + 1300), (p0 + 1500, p0 + 1700)]
                trig = [(p0 + 271, p0 + 310), (p0 + 401, p0 + 800), e[2], (e[3][0], e[3][1] - 50)]
                mir = [(p0 + 150, p0 + 800), e[2], (e[3][0], e[3][1] - 50)]
                fake = [(p0 + 20, p0 + 45), (p0 + 150, p0 + 280), e[1], e[2]]
            else:
                e = [(p0 + 101, p0 + 300), (p0 + 501, p0 + 700), (p0 + 1000, p0 + 1500), (p0 + 1521, p0 + 1700)]
                trig = [(p0 + 150, p0 + 300), e[1], (p0 + 1000, p0 + 1400), (p0 + 1491, p0 + 1530)]
                mir = [(p0 + 150, p0 + 300), e[1], (p0 + 1000, p0 + 1650)]
                fake = [e[1], e[2], (e[3][0], e[3][1] - 50), (p0 + 1760, p0 + 1785)]
            gid = "FM%d_%d" % (ci + 1, k + 1)
            g = Gene(gid, chrom, strand)
            g.transcripts.append(Transcript(gid + ".t1", gid, chrom, strand, e, True, "fake-exon-over-micro-intron"))
            for intr in g.transcripts[0].introns:
                w.plant_sites(chrom, intr, strand)
            w.genes.append(g)
            for q in range(2):
                w.make_read(chrom, list(e), truth={"src": gid + ".t1", "class": "exact"})
                w.make_read(chrom, trig, truth={"src": gid + ".t1", "class": "fake-terminal-exon-over-micro-intron-" + side})
                w.make_read(chrom, mir, truth={"src": gid + ".t1", "class": "micro-intron-retained-in-terminal-exon-" + side})
                w.make_read(chrom, fake, truth={"src": gid + ".t1", "class": "fake-terminal-exon-" + side})
            p0 = e[-1][1] + rng.randint(2500, 3500)
    # reads running beyond the isoform with TWO extra introns on one side: a short (30 bp) inner extra exon and a long (300 bp) outermost one
    for g in [g_ for g_ in w.genes if g_.id.startswith("T") and not g_.id.startswith("TINY")]:
        t = g.transcripts[0]
        ex = list(t.exons)
        for q in range(2):
            w.make_read(t.chrom, ex[2:4] + [(ex[4][0], ex[4][1] + 50), (ex[4][1] + 201, ex[4][1] + 230), (ex[4][1] + 401, ex[4][1] + 700 - 10 * q)],
                        truth={"src": t.id, "class": "two-extra-introns-right-short-inner-exon"})
            if ex[0][0] > 900:
                w.make_read(t.chrom, [(ex[0][0] - 700 + 10 * q, ex[0][0] - 401), (ex[0][0] - 230, ex[0][0] - 201), (ex[0][0] - 50, ex[0][1])] + ex[1:3],
                            truth={"src": t.id, "class": "two-extra-introns-left-short-inner-exon"})
    # a gene with a 5-bp annotated micro-intron; error-free reads whose own 5-bp intron lies right before / right after it (each site 6 bp away:
    # equal within delta, no shared base)
    for ci, chrom in enumerate(w.chrom_order):
        p0 = max([g.end for g in w.genes if g.chrom == chrom] + [1000]) + 2500
        if p0 + 3000 < w.chrom_len(chrom) - 8000:
            gid = "MI5_%d" % (ci + 1)
            e = [(p0, p0 + 200), (p0 + 206, p0 + 400), (p0 + 1000, p0 + 1300)]
            g = Gene(gid, chrom, "+-"[ci % 2])
            g.transcripts.append(Transcript(gid + ".t1", gid, chrom, g.strand, e, True, "five-bp-micro-intron"))
            w.plant_sites(chrom, g.transcripts[0].introns[1], g.strand)
            w.genes.append(g)
            for q in range(2):
                w.make_read(chrom, list(e), truth={"src": gid + ".t1", "class": "exact"})
                w.make_read(chrom, [(p0, p0 + 194), (p0 + 200, p0 + 400), e[2]], truth={"src": gid + ".t1", "class": "own-5bp-intron-before-the-annotated-one"})
                w.make_read(chrom, [(p0, p0 + 206), (p0 + 212, p0 + 400), e[2]], truth={"src": gid + ".t1", "class": "own-5bp-intron-after-the-annotated-one"})
    # a 3-base terminal read exon, all of its bases mismatching, whose splice site lies 6 bp inside the neighbouring annotated intron (jitter
    # within delta with errors next to the junction: the annotated site would be forced, but it lies BEYOND the end of the read)
    comp_ = {"A": "C", "C": "A", "G": "T", "T": "G"}
    for g in [g_ for g_ in w.genes if g_.id.startswith("T") and not g_.id.startswith("TINY")]:
        t = g.transcripts[0]
        ex = list(t.exons)
        # left: first read exon = 3 bases starting 4 bp after the end of the isoform's first exon
        r = w.make_read(t.chrom, [(ex[0][1] + 4, ex[0][1] + 6)] + ex[1:4], truth={"src": t.id, "class": "three-base-first-exon-off-by-6"})
        r.seq = "".join(comp_.get(c_, "A") for c_ in r.seq[:3]) + r.seq[3:]
        r = w.make_read(t.chrom, ex[1:4] + [(ex[4][0] - 6, ex[4][0] - 4)], truth={"src": t.id, "class": "three-base-last-exon-off-by-6"})
        r.seq = r.seq[:-3] + "".join(comp_.get(c_, "A") for c_ in r.seq[-3:])
    # three-exon genes with a 24-44 bp middle exon; reads that skip it and whose one outer site lies 3-5 bp inside the neighbouring exon
    # (the short-read based rule "one long intron = two short-read introns around a micro-exon" needs one of the outer sites to differ);
    # eight loci per sequence, because the rule walks a SET of short-read introns in hash order
    for ci, chrom in enumerate(w.chrom_order):
        p0 = max([g.end for g in w.genes if g.chrom == chrom] + [1000]) + 2500
        for k in range(8):
            if p0 + 3000 > w.chrom_len(chrom) - 8000:
                break
            strand = "+-"[k % 2]
            Lm = rng.randint(24, 44)
            e1 = (p0, p0 + rng.randint(250, 350))
            e2 = (e1[1] + rng.randint(300, 700), 0)
            e2 = (e2[0], e2[0] + Lm - 1)
            e3 = (e2[1] + rng.randint(300, 700), 0)
            e3 = (e3[0], e3[0] + rng.randint(250, 350))
            gid = "MX%d_%d" % (ci + 1, k + 1)
            g = Gene(gid, chrom, strand)
            g.transcripts.append(Transcript(gid + ".t1", gid, chrom, strand, [e1, e2, e3], True, "micro-exon"))
            for intr in g.transcripts[0].introns:
                w.plant_sites(chrom, intr, strand)
            w.genes.append(g)
            off = rng.choice((3, 4, 5))
            for q in range(2):
                w.make_read(chrom, [e1, e2, e3], truth={"src": gid + ".t1", "class": "exact"})
                w.make_read(chrom, [(e1[0] + 5 * q, e1[1] - off), (e3[0], e3[1] - 3 * q)], truth={"src": gid + ".t1", "class": "skipped-micro-exon-left-site-off"})
                w.make_read(chrom, [(e1[0] + 5 * q, e1[1]), (e3[0] + off, e3[1] - 3 * q)], truth={"src": gid + ".t1", "class": "skipped-micro-exon-right-site-off"})
            p0 = e3[1] + rng.randint(2500, 3500)
    # a gene whose two isoforms have OVERLAPPING introns (alternative donor in one, alternative acceptor in the other: 401..906 and 901..1400
    # relative to the locus) and reads with a spurious 6-bp exon between two introns, each within the tolerance of one of them; an insertion
    # (or three mismatching bases) inside the tiny exon makes both sites move
    from vlib.world import Read
    for ci, chrom in enumerate(w.chrom_order):
        p0 = max([g.end for g in w.genes if g.chrom == chrom] + [1000]) + 2500
        if p0 + 4000 > w.chrom_len(chrom):
            continue
        strand = "+-"[ci % 2]
        gid = "TINY%d" % (ci + 1)
        t1 = [(p0, p0 + 400), (p0 + 907, p0 + 1900)]
        t2 = [(p0, p0 + 900), (p0 + 1401, p0 + 1900)]
        g = Gene(gid, chrom, strand)
        g.transcripts.append(Transcript(gid + ".t1", gid, chrom, strand, t1, True, "overlapping-introns"))
        g.transcripts.append(Transcript(gid + ".t2", gid, chrom, strand, t2, True, "overlapping-introns"))
        for t in g.transcripts:
            for intr in t.introns:
                w.plant_sites(chrom, intr, strand)
        w.genes.append(g)
        for t in g.transcripts:
            for _ in range(3):
                w.make_read(chrom, list(t.exons), truth={"src": t.id, "class": "exact"})
        seq = w.chroms[chrom]
        for k in range(3):
            # blocks: p0+10k..p0+400 | p0+901..p0+906 | p0+1401..p0+1900-10k
            b1 = (p0 + 10 * k, p0 + 400)
            b2 = (p0 + 901, p0 + 906)
            b3 = (p0 + 1401, p0 + 1900 - 10 * k)
            s1 = "".join(seq[b1[0] - 1:b1[1]])
            s2 = "".join(seq[b2[0] - 1:b2[1]])
            s3 = "".join(seq[b3[0] - 1:b3[1]])
            if k < 2:
                cigar = [(0, len(s1)), (3, b2[0] - b1[1] - 1), (0, 3), (1, 1), (0, 3), (3, b3[0] - b2[1] - 1), (0, len(s3))]
                rseq = s1 + s2[:3] + "G" + s2[3:] + s3
                cls = "tiny-exon-between-overlapping-introns:insertion"
            else:
                flip = {"A": "C", "C": "A", "G": "T", "T": "G"}
                cigar = [(0, len(s1)), (3, b2[0] - b1[1] - 1), (0, 6), (3, b3[0] - b2[1] - 1), (0, len(s3))]
                rseq = s1 + "".join(flip.get(c_.upper(), "A") if i_ in (1, 3, 4) else c_ for i_, c_ in enumerate(s2)) + s3
                cls = "tiny-exon-between-overlapping-introns:mismatches"
            w.reads.append(Read(w.new_read_name("tiny"), chrom, b1[0] - 1, cigar, rseq, flag=0, mapq=60, tags=[], truth={"src": gid, "class": cls}))
        # a terminal read exon of 3..6 bases (with a deleted base) lying INSIDE an annotated intron, flush with its outer site: moving the read's
        # splice site onto the annotated one would leave an empty exon (the shift equals the exon length exactly), so the site must stay
        for L in (3, 4, 5, 6):
            a0 = p0 + 401                                           # first base of t1's intron
            tail = (p0 + 907, p0 + 1900 - 7 * L)
            cigar = [(0, 1), (2, 1), (0, L - 2), (3, 506 - L), (0, tail[1] - tail[0] + 1)]
            rseq = seq[a0 - 1] + "".join(seq[a0 + 1:a0 + L - 1]) + "".join(seq[tail[0] - 1:tail[1]])
            w.reads.append(Read(w.new_read_name("tinyfirst"), chrom, a0 - 1, cigar, rseq, flag=0, mapq=60, tags=[],
                                truth={"src": gid + ".t1", "class": "terminal-exon-as-long-as-the-shift:first"}))
            b1_ = p0 + 1400                                         # last base of t2's intron
            head = (p0 + 7 * L, p0 + 900)
            cigar = [(0, head[1] - head[0] + 1), (3, 500 - L), (0, L - 2), (2, 1), (0, 1)]
            rseq = "".join(seq[head[0] - 1:head[1]]) + "".join(seq[b1_ - L:b1_ - 2]) + seq[b1_ - 1]
            w.reads.append(Read(w.new_read_name("tinylast"), chrom, head[0] - 1, cigar, rseq, flag=0, mapq=60, tags=[],
                                truth={"src": gid + ".t2", "class": "terminal-exon-as-long-as-the-shift:last"}))
    # twin introns 2-6 bp apart at one boundary (never the first intron of the gene): a read junction between them is within
    # the tolerance of BOTH annotated introns
    if twins:
        world2.add_twin_loci(w, per_chrom=3)
    return w


def bam_exons(path):
    res = {}
    with pysam.AlignmentFile(path) as b:
        for a in b:
            if a.is_unmapped or a.is_supplementary:
                continue
            r = Read(a.query_name, a.reference_name, a.reference_start, a.cigartuples, "")
            res.setdefault((a.query_name, a.reference_name), []).append(r.aligned_exons())
    return res


def check_bed12(chk, b, clen, desc, wit):
    ok = True
    if b.n != len(b.sizes) or b.n != len(b.starts) or b.n < 1:
        chk.violation("bed12:block-count", "%s: %s blockCount %d, %d sizes, %d starts" % (desc, b.name, b.n, len(b.sizes), len(b.starts)), wit)
        return False
    if any(s <= 0 for s in b.sizes):
        chk.violation("bed12:non-positive-block", "%s: %s sizes %s" % (desc, b.name, b.sizes), wit)
        ok = False
    if b.starts[0] != 0:
        chk.violation("bed12:first-block-not-at-chromStart", "%s: %s starts %s" % (desc, b.name, b.starts[:3]), wit)
        ok = False
    if b.start + b.starts[-1] + b.sizes[-1] != b.end:
        chk.violation("bed12:last-block-not-at-chromEnd", "%s: %s" % (desc, b.raw[:150]), wit)
        ok = False
    for i in range(b.n - 1):
        if b.starts[i] + b.sizes[i] > b.starts[i + 1]:
            chk.violation("bed12:blocks-overlap-or-unsorted", "%s: %s" % (desc, b.raw[:150]), wit)
            ok = False
            break
    if not (0 <= b.start < b.end <= clen):
        chk.violation("bed12:outside-chromosome", "%s: %s %d-%d, chromosome length %d" % (desc, b.name, b.start, b.end, clen), wit)
        ok = False
    return ok


def run(chk, scratch):
    thorough = chk.tier == "thorough"
    chk.rule = ("reads built to trigger each correction event (junction jitter with and without sequence errors next to the junction, skipped micro-exon, "
                "retained micro-intron, intron shift, tails aligned as separate terminal blocks onto genomic A/T stretches, junctions lying between two annotated introns 2-6 bp apart, fake terminal exons, missed short terminal exons, far alternative sites) plus noisy rich worlds, x all "
                "six splice-correction strategies x data types, with and without annotation / short-read BAM; every BED record judged. "
                "non-trivial = distinct (strategy, read class, changed?) among reads whose corrected alignment differs from the input")
    strategies = list(STRATEGY_FLAGS)
    jobs = []
    if thorough:
        for si in range(4):
            for st in strategies:
                for dt in ("nanopore", "pacbio_ccs"):
                    jobs.append((chk.seed * 100 + si, "event", st, dt, True))
            for st in ("none", "all", "default_ont"):
                jobs.append((chk.seed * 100 + si, "rich", st, "nanopore", True))
            jobs.append((chk.seed * 100 + si, "event", "default_ont", "nanopore", False))
            jobs.append((chk.seed * 100 + si, "event", "none", "pacbio_ccs", False))
            jobs.append((chk.seed * 100 + si, "event", ("default_ont/--delta 0", "all/--delta 2", "default_pacbio/--delta 0")[si % 3], "nanopore", True))
    else:
        for k, st in enumerate(strategies):
            jobs.append((chk.seed * 100, "event", st, ("nanopore", "pacbio_ccs")[k % 2], True))
        jobs.append((chk.seed * 100 + 1, "rich", "all", "nanopore", True))
        jobs.append((chk.seed * 100, "event", "default_ont/--delta 0", "nanopore", True))
        jobs.append((chk.seed * 100, "event", "default_ont", "nanopore", False))
        jobs.append((chk.seed * 100, "event", "none", "nanopore", False))        # 'none' switches the short-read based correction off as well
    worlds = {}
    for key in sorted(set((j[0], j[1]) for j in jobs)):
        seed, kind = key
        d = os.path.join(scratch, "w%d_%s" % (seed, kind))
        w = event_world(seed) if kind == "event" else world2.rich_world(seed, n_chroms=3, genes_per_chrom=3, reads_per_t=5, hidden_cov=4, zoo=world2.ZOO_ALL)
        pipeline.write_world(w, d)
        # short-read BAM for annotation-free runs: spliced short reads over every annotated junction
        sw = World(seed)
        sw.chroms, sw.chrom_order = w.chroms, w.chrom_order
        for t in w.all_transcripts():
            for i in t.introns:
                for _ in range(3):
                    sw.make_read(t.chrom, [(i[0] - 60, i[0] - 1), (i[1] + 1, i[1] + 60)], name=sw.new_read_name("s"))
        # a long read with a 15-base first (last) exon in a gene-free stretch, and short reads supporting two introns around a 39-bp exon whose
        # outer intron begins 5 bp BEFORE the long read's start (ends 5 bp after its end): the short-read rule must not swallow the terminal exon
        for chrom in w.chrom_order[:1]:
            q0 = max([g.end for g in w.genes if g.chrom == chrom] + [1000]) + 6000
            if q0 + 12000 < w.chrom_len(chrom):
                w.make_read(chrom, [(q0, q0 + 14), (q0 + 2001, q0 + 2500)], truth={"class": "short-first-exon-near-short-read-introns"})
                w.make_read(chrom, [(q0 + 5000, q0 + 5499), (q0 + 7001, q0 + 7015)], truth={"class": "short-last-exon-near-short-read-introns"})
                for intr in ((q0 - 5, q0 + 1000), (q0 + 1040, q0 + 2000), (q0 + 5500, q0 + 6000), (q0 + 6040, q0 + 7020)):
                    for _ in range(3):
                        sw.make_read(chrom, [(intr[0] - 60, intr[0] - 1), (intr[1] + 1, intr[1] + 60)], name=sw.new_read_name("s"))
        sw.write_bam(os.path.join(d, "short.bam"))
        w.write_bam(os.path.join(d, "r.bam"))
        # a second short-read file that lists only the first sequence in its header (per-chromosome file set)
        sw.write_bam(os.path.join(d, "short_first_sequence.bam"), reads=[r_ for r_ in sw.reads if r_.chrom == w.chrom_order[0]], chrom_order=w.chrom_order[:1])
        worlds[key] = (d, w)

    def one(job):
        seed, kind, st, dt, annotated = job
        d, w = worlds[(seed, kind)]
        out = os.path.join(d, "out_%s_%s_%s" % (st.replace("/", "_").replace(" ", ""), dt, annotated))
        extra = ["--splice_correction_strategy", st.split("/")[0], "--no_model_construction"]
        if "--delta" in st:
            extra += ["--delta", st.split("--delta ")[1]]          # explicit tolerance (0 = junctions may not move at all)
        if not annotated:
            extra += ["--illumina_bam", os.path.join(d, "short.bam"), os.path.join(d, "short_first_sequence.bam")]
        r = pipeline.run(d, out, data_type=dt, threads=1 + len(st.split("/")[0]) % 2, annotated=annotated, home=out + "_home", extra=extra)
        return job, out, r
    judged = 0
    changed_total = 0
    changed_by_strategy = defaultdict(int)
    for job, out, r in runner.parallel(one, jobs, workers=8):
        seed, kind, st, dt, annotated = job
        d, w = worlds[(seed, kind)]
        desc = "world=%d/%s strategy=%s data_type=%s annotated=%s" % (seed, kind, st, dt, annotated)
        wit = {"world_seed": seed, "world": kind, "strategy": st, "data_type": dt, "annotated": annotated}
        if r["rc"] is None:
            chk.inconclusive.append("watchdog expired: " + desc)
            continue
        if r["rc"] != 0:
            chk.violation("run-failed", "%s: %s" % (desc, pipeline.fail_text(r)), wit)
            continue
        o = pipeline.Outputs(out)
        fai = parse.read_fai(os.path.join(d, "g.fa.fai"))
        inp = bam_exons(os.path.join(d, "r.bam"))
        truth = {rd.name: rd.truth for rd in w.reads}
        flags = STRATEGY_FLAGS[st.split("/")[0]]
        # annotation
        iso_introns = {}
        ann_introns = defaultdict(list)
        for t in w.all_transcripts():
            iso_introns[t.id] = t.introns
            for i in t.introns:
                ann_introns[t.chrom].append(i)
        asg = defaultdict(list)
        if annotated:
            for a in o.assignments():
                asg[(a.read_id, a.chr)].append(a)
        short_introns = defaultdict(set)
        if not annotated:
            for t in w.all_transcripts():
                for i in t.introns:
                    short_introns[t.chrom].add(i)
        delta = int(st.split("--delta ")[1]) if "--delta" in st else {"nanopore": 6, "pacbio_ccs": 4, "assembly": 4}[dt]
        for b in o.bed():
            judged += 1
            chk.note()
            if not check_bed12(chk, b, fai.get(b.chr, 0), desc, wit):
                continue
            cex = b.exons()
            cls = truth.get(b.name, {}).get("class") or truth.get(b.name, {}).get("mode") or "other"
            recs = asg.get((b.name, b.chr), [])
            if annotated and recs:
                # the TSV exons column = input alignment after polyA-exon trimming
                tsv_exons = None
                for a in recs:
                    if cex[0][1] >= a.exons[0][0] - 5000 and a.exons[-1][1] >= cex[0][0] - 5000:
                        tsv_exons = a.exons
                        break
                tsv_exons = tsv_exons or recs[0].exons
                # ... and that column must itself be the input alignment: its splice sites are a contiguous part of the splice sites an
                # independent walk over the BAM record's CIGAR gives (terminal tail blocks may have been removed)
                ti = parse.introns_of(tsv_exons)
                walked = [parse.introns_of(e) for e in inp.get((b.name, b.chr), [])]
                if walked and ti and not any(any(list(wi[k:k + len(ti)]) == list(ti) for k in range(len(wi) - len(ti) + 1)) for wi in walked):
                    chk.violation("assignment-exons-differ-from-input-alignment", "%s: read %s (%s): exons column %s, CIGAR walk %s" %
                                  (desc, b.name, cls, tsv_exons[:4], inp.get((b.name, b.chr))[0][:4]), wit)
                    continue
            else:
                cand = list(inp.get((b.name, b.chr), []))
                # terminal blocks that are aligned tails (>= 75 % A or T in the reference) are removed before anything else is done
                for e in list(cand):
                    e2 = list(e)
                    while len(e2) > 1 and max(w.seq_of(b.chr, *e2[0]).count("T"), w.seq_of(b.chr, *e2[0]).count("A")) >= 0.75 * (e2[0][1] - e2[0][0] + 1):
                        e2 = e2[1:]
                    while len(e2) > 1 and max(w.seq_of(b.chr, *e2[-1]).count("T"), w.seq_of(b.chr, *e2[-1]).count("A")) >= 0.75 * (e2[-1][1] - e2[-1][0] + 1):
                        e2 = e2[:-1]
                    if e2 != list(e):
                        cand.append(e2)
                tsv_exons = None
                for e in cand:
                    if e[0][0] - 1 == b.start or e[-1][1] == b.end:
                        tsv_exons = e
                for e in cand:
                    if e[0][0] - 1 == b.start and e[-1][1] == b.end:
                        tsv_exons = e
                tsv_exons = tsv_exons or (cand[0] if cand else None)
            if tsv_exons is None:
                chk.violation("bed-record-without-input-alignment", "%s: %s" % (desc, b.name), wit)
                continue
            changed = list(cex) != list(tsv_exons)
            if changed:
                changed_total += 1
                changed_by_strategy[st] += 1
                chk.nontrivial.add((st, cls, annotated))
            events = set()
            isoforms = set()
            for a in recs:
                isoforms.add(a.isoform)
                for ev in a.events.replace(",", "+").split("+"):
                    events.add(ev.split(":")[0])
            # strategy none: nothing changes
            if st == "none" and changed:
                chk.violation("strategy-none-changed-alignment", "%s: read %s (%s) input %s corrected %s" % (desc, b.name, cls, tsv_exons[:4], cex[:4]), wit)
                continue
            # ends
            if cex[0][0] != tsv_exons[0][0]:
                ok = (flags[4] and any(e.startswith("fake_terminal_exon") for e in events)) or \
                     (flags[3] and any(e.startswith("terminal_exon_misalignment") for e in events))
                if not ok:
                    chk.violation("start-moved-without-enabled-terminal-correction:" + st,
                                  "%s: read %s (%s) start %d -> %d, events %s" % (desc, b.name, cls, tsv_exons[0][0], cex[0][0], sorted(events)[:6]), wit)
            if cex[-1][1] != tsv_exons[-1][1]:
                ok = (flags[4] and any(e.startswith("fake_terminal_exon") for e in events)) or \
                     (flags[3] and any(e.startswith("terminal_exon_misalignment") for e in events))
                if not ok:
                    chk.violation("end-moved-without-enabled-terminal-correction:" + st,
                                  "%s: read %s (%s) end %d -> %d, events %s" % (desc, b.name, cls, tsv_exons[-1][1], cex[-1][1], sorted(events)[:6]), wit)
            # splice sites
            own = parse.introns_of(tsv_exons)
            own_l = {i[0] for i in own}
            own_r = {i[1] for i in own}
            allowed_l, allowed_r = set(own_l), set(own_r)
            if annotated:
                tol = max(delta, 60)       # correction tolerances: delta for fuzzy junctions, up to the intron-shift / missed-exon limits for events
                for ai in ann_introns[b.chr]:
                    for ri in own:
                        if abs(ai[0] - ri[0]) <= delta and abs(ai[1] - ri[1]) <= delta:
                            allowed_l.add(ai[0])
                            allowed_r.add(ai[1])
                # introns of an assigned isoform are inserted / restored only by an event-driven correction the strategy enables
                for a in recs:
                    evs = [ev.split(":")[0] for ev in a.events.replace(",", "+").split("+")]
                    inserting = (flags[1] and "intron_shift" in evs) or (flags[2] and "exon_misalignment" in evs) or \
                                (flags[3] and any(e.startswith("terminal_exon_misalignment") for e in evs)) or \
                                (flags[5] and "fake_micro_intron_retention" in evs)
                    if not inserting:
                        continue
                    for ii in iso_introns.get(a.isoform, ()):
                        allowed_l.add(ii[0])
                        allowed_r.add(ii[1])
            else:
                for si in short_introns[b.chr]:
                    allowed_l.add(si[0])
                    allowed_r.add(si[1])
            for ci_ in parse.introns_of(cex):
                if ci_[0] not in allowed_l:
                    chk.violation("corrected-left-site-not-allowed:" + st, "%s: read %s (%s) corrected intron %s: left site is neither the read's own nor an allowed annotated one; "
                                  "input introns %s" % (desc, b.name, cls, ci_, own[:5]), wit)
                if ci_[1] not in allowed_r:
                    chk.violation("corrected-right-site-not-allowed:" + st, "%s: read %s (%s) corrected intron %s: right site not allowed; input introns %s" %
                                  (desc, b.name, cls, ci_, own[:5]), wit)
        chk.sample({"run": desc, "bed_records": len(o.bed())}, limit=3)
        if chk.violations and not getattr(chk, "witness_files", None):
            chk.witness_files = [os.path.join(d, f) for f in ("g.fa", "a.gtf", "r.bam", "r.bam.bai", "short.bam", "short.bam.bai")]
        shutil.rmtree(out, ignore_errors=True)
    chk.extra.update({"bed_records_judged": judged, "records_changed_by_correction": changed_total,
                      "changed_by_strategy": dict(changed_by_strategy)})
    chk.assumptions = ["input alignment = exons column of read_assignments.tsv (annotated runs) or an independent CIGAR walk over the BAM (annotation-free)",
                       "allowed sites = the read's own sites, sites of annotated introns equal to a read intron within delta, sites of introns of any isoform the read is reported on; "
                       "for annotation-free runs the short-read junction set"]
    for st in STRATEGY_FLAGS:
        if st != "none" and any(j[2] == st and j[4] for j in jobs):
            chk.inconclusive_if(changed_by_strategy.get(st, 0) == 0, "strategy %s changed no read" % st)
    chk.min_nontrivial = 6
