"""C01 — reads that follow an annotated isoform are assigned to compatible isoforms only (and the converse).

Monitor: the documented output *.read_assignments.tsv of real CLI runs, joined on read id with the generator's truth.
Oracle: vlib/oracles/compat.py (independent of src/); delta per preset taken from the documentation (0/4/6/12).
"""
import os
import shutil
from collections import defaultdict

from vlib import runner, pipeline, world, world2, parse
from vlib.oracles import compat
from vlib.transform import split_events as transform_split

LEVEL = "exploration"
DELTA = {"exact": 0, "precise": 4, "default": 6, "loose": 12}
CONSISTENT = {"unique", "unique_minor_difference", "ambiguous"}


def make_world(seed, jitter):
    w = world2.rich_world(seed, n_chroms=3, genes_per_chrom=4, reads_per_t=0, hidden_cov=0, multimappers=False, unmapped=0)
    rng = w.rng
    for g in w.genes:
        for t in g.transcripts:
            n = len(t.exons)
            modes = ["full", "full", "trunc5", "trunc3", "trunc_both", "mono"] if n > 1 else ["full", "mono"]
            for _ in range(7):
                mode = rng.choice(modes)
                j = rng.randint(0, jitter) if jitter else 0
                eqx = rng.random() < 0.35
                r = w.read_from_transcript(t, mode=mode, jitter=j, polya=rng.random() < 0.5, indels=1 if (rng.random() < 0.3 and not eqx) else 0,
                                           flag=rng.choice((0, 16)), mismatches=rng.randint(4, 9) if eqx else 0)
                if r is not None:
                    r.truth["class"] = "conforming"
                    if eqx:
                        # the same alignment written with =/X operations, several mismatching bases per exon (away from the junctions)
                        w.to_eqx(r)
                        r.truth["eqx"] = True
            # non-conforming reads
            ex = list(t.exons)
            if n >= 4:
                cands = []
                jx = rng.randint(1, n - 2)
                if ex[jx][1] - ex[jx][0] + 1 >= 150:
                    cands.append(("skipped-exon", ex[:jx] + ex[jx + 1:]))
                k = rng.randint(0, n - 2)
                gap = ex[k + 1][0] - ex[k][1] - 1
                if gap >= 750:
                    s = ex[k][1] + 250 + rng.randint(0, gap - 700)
                    cands.append(("extra-exon", ex[:k + 1] + [(s, s + rng.randint(150, 200))] + ex[k + 1:]))
                k = rng.randint(0, n - 2)
                cands.append(("retained-intron", ex[:k] + [(ex[k][0], ex[k + 1][1])] + ex[k + 2:]))
                k = rng.randint(1, n - 2)
                if ex[k][1] - ex[k][0] + 1 >= 280:
                    d = rng.randint(110, 150)
                    cands.append(("shifted-site", ex[:k] + [(ex[k][0] + d, ex[k][1])] + ex[k + 1:]))
                # two-exon reads that start inside the last (first) exon of the isoform, follow it to its very end and continue with an intron
                # and a 300-bp exon lying entirely BEYOND the isoform: no intron of the read matches anything
                if ex[-1][1] - ex[-1][0] >= 120 and ex[-1][1] + 1300 < w.chrom_len(t.chrom):
                    cands.append(("extra-exon-beyond-end", [(ex[-1][0] + 30, ex[-1][1]), (ex[-1][1] + 800, ex[-1][1] + 1100)]))
                if ex[0][1] - ex[0][0] >= 120 and ex[0][0] > 1400:
                    cands.append(("extra-exon-beyond-end", [(ex[0][0] - 1100, ex[0][0] - 800), (ex[0][0], ex[0][1] - 30)]))
                if jitter == 0:
                    # preset 'exact' (every splice-site tolerance is 0): ONE site of one intron moved by 20-30 bp, the other site kept; the
                    # intron is long enough for the length change to stay below 20 %
                    k = rng.randint(1, n - 2)
                    d = rng.randint(20, 30)
                    if ex[k][1] - ex[k][0] + 1 >= 120 and ex[k][0] - ex[k - 1][1] - 1 >= 6 * d and ex[k + 1][0] - ex[k][1] - 1 >= 6 * d:
                        cands.append(("site-moved-20-30:right-site", ex[:k] + [(ex[k][0] + rng.choice((-d, d)), ex[k][1])] + ex[k + 1:]))
                        cands.append(("site-moved-20-30:left-site", ex[:k] + [(ex[k][0], ex[k][1] + rng.choice((-d, d)))] + ex[k + 1:]))
                if ex[0][0] > 800:
                    cands.append(("extended-start", [(ex[0][0] - rng.randint(420, 600), ex[0][1])] + ex[1:]))
                cands.append(("extended-end", ex[:-1] + [(ex[-1][0], ex[-1][1] + rng.randint(420, 600))]))
                # ends 150-280 bp outside the isoform (3-5 times the 50 bp that count as a minor extension; the documentation says 30), no tail
                if ex[0][0] > 800:
                    cands.append(("extended-start-150-280", [(ex[0][0] - rng.randint(150, 280), ex[0][1])] + ex[1:]))
                cands.append(("extended-end-150-280", ex[:-1] + [(ex[-1][0], ex[-1][1] + rng.randint(150, 280))]))
                # pairs of non-conforming reads that share one intron chain: an end-extended truncated read and a read that retains the
                # NEXT intron inside its terminal exon (what one of them is found to be says nothing about the other)
                if ex[0][0] > 800 and ex[3][0] - ex[2][1] - 1 >= 150:
                    cands.append(("extended-start", [(ex[0][0] - rng.randint(420, 600), ex[0][1]), ex[1], ex[2]]))
                    cands.append(("retained-terminal-intron", [ex[0], ex[1], (ex[2][0], ex[3][1])]))
                if ex[n - 3][0] - ex[n - 4][1] - 1 >= 150:
                    cands.append(("retained-terminal-intron", [(ex[n - 4][0], ex[n - 3][1]), ex[n - 2], ex[n - 1]]))
                    cands.append(("extended-end", [ex[n - 3], ex[n - 2], (ex[n - 1][0], ex[n - 1][1] + rng.randint(420, 600))]))
                # terminal block running 350-500 bp into an intron next to an internal exon (partly retained intron), both sides
                k = rng.randint(1, n - 3)
                if ex[k + 1][0] - ex[k][1] - 1 >= 700:
                    cands.append(("end-inside-intron", ex[:k] + [(ex[k][0], ex[k][1] + rng.randint(350, 500))]))
                k = rng.randint(2, n - 2)
                if ex[k][0] - ex[k - 1][1] - 1 >= 700:
                    cands.append(("end-inside-intron", [(ex[k][0] - rng.randint(350, 500), ex[k][1])] + ex[k + 1:]))
                # 5' end running far past the annotated start while the 3' end sits exactly at the annotated end and carries a tail
                if t.strand == "+" and ex[0][0] > 800:
                    cands.append(("extended-5prime-with-tail", [(ex[0][0] - rng.randint(420, 600), ex[0][1])] + ex[1:]))
                if t.strand == "-":
                    cands.append(("extended-5prime-with-tail", ex[:-1] + [(ex[-1][0], ex[-1][1] + rng.randint(420, 600))]))
                # every second non-conforming read additionally carries a small, tolerated deviation: a terminal exon 15-40 bp longer than the
                # annotated one (the major change must still decide the verdict)
                with_minor = []
                for ci_, (cls, e2) in enumerate(cands):
                    if ci_ % 2 == 0 and cls in ("skipped-exon", "extra-exon", "retained-intron", "shifted-site") and e2[0] == ex[0] and e2[-1] == ex[-1] \
                            and ex[0][0] > 200:
                        d_ = rng.randint(15, 40)
                        e3 = [(e2[0][0] - d_, e2[0][1])] + e2[1:] if ci_ % 4 == 0 else e2[:-1] + [(e2[-1][0], e2[-1][1] + d_)]
                        with_minor.append((cls, e3))
                cands += with_minor
                for cls, e2 in cands:
                    if e2[0][0] < 10 or e2[-1][1] > w.chrom_len(t.chrom) - 10:
                        continue
                    tail = {}
                    if cls == "extended-5prime-with-tail":
                        tail = {"polya": 30} if t.strand == "+" else {"polyt": 30}
                    w.make_read(t.chrom, e2, truth={"src": t.id, "class": cls, "true_exons": e2, "strand": t.strand},
                                flag=rng.choice((0, 16)) if not tail else (0 if t.strand == "+" else 16), **tail)
        for t in g.hidden:
            for _ in range(3):
                r = w.read_from_transcript(t, mode="full", jitter=0, polya=False)
                if r is not None:
                    r.truth["class"] = "hidden-isoform"
    # conforming reads whose tail is partly ALIGNED: 25 tail bases form a separate leading (polyT, '-' isoforms) or trailing (polyA, '+' isoforms)
    # block on a genomic T / A stretch 300 bp outside the isoform, the rest of the tail is soft-clipped; full-length and 5'-truncated
    n_aligned_tail = 0
    # (not under preset 'exact': it sets the longest terminal block that may be taken for an aligned tail to 0, the block stays an exon)
    for g in (list(w.genes) if jitter > 0 else []):
        for t in g.transcripts[:1]:
            if len(t.exons) < 3 or n_aligned_tail >= 12:
                continue
            blk = (t.exons[0][0] - 325, t.exons[0][0] - 301) if t.strand == "-" else (t.exons[-1][1] + 301, t.exons[-1][1] + 325)
            if blk[0] < 50 or blk[1] > w.chrom_len(t.chrom) - 50:
                continue
            if any(not (g2.end < blk[0] - 120 or g2.start > blk[1] + 120) for g2 in w.genes if g2.chrom == t.chrom and g2 is not g) or \
                    any(not (t2.end < blk[0] - 120 or t2.start > blk[1] + 120) for t2 in g.transcripts + g.hidden):
                continue
            seq_ = w.chroms[t.chrom]
            for q in range(blk[0], blk[1] + 1):
                seq_[q - 1] = "T" if t.strand == "-" else "A"
            n_aligned_tail += 1
            for k in range(2):
                ex = list(t.exons)
                if k == 1:
                    ex = ex[:-1] if t.strand == "-" else ex[1:]          # 5'-truncated
                    if len(ex) < 2:
                        continue
                al = ([blk] + ex) if t.strand == "-" else (ex + [blk])
                tail = {"polyt": 15, "flag": 16} if t.strand == "-" else {"polya": 15, "flag": 0}
                w.make_read(t.chrom, al, truth={"src": t.id, "class": "conforming", "mode": "full" if k == 0 else "trunc5", "true_exons": ex, "polya": True,
                                                "tail_partly_aligned": True, "jitter": 0}, **tail)
    # isoform pairs that share their intron chain and differ only in the 3' end (300 bp apart): tailed and tail-less reads of both, full
    # length and 5'-truncated; a tail at the short isoform's end says which of the two the read comes from
    from vlib.world import Gene as _Gene, Transcript as _Transcript
    for ci, chrom in enumerate(w.chrom_order):
        pos = max([g.end for g in w.genes if g.chrom == chrom] + [1000]) + 2500
        for k, strand in enumerate("+-"):
            if pos + 7000 > w.chrom_len(chrom):
                break
            e = [(pos + 400, pos + 700), (pos + 1300, pos + 1550), (pos + 2200, pos + 2500), (pos + 3200, pos + 3700)]
            long_ = [(e[0][0] - 300, e[0][1])] + e[1:] if strand == "-" else e[:-1] + [(e[-1][0], e[-1][1] + 300)]
            gid = "APA%d_%d" % (ci + 1, k + 1)
            g = _Gene(gid, chrom, strand)
            g.transcripts.append(_Transcript(gid + ".short", gid, chrom, strand, list(e), True, "apa-pair"))
            g.transcripts.append(_Transcript(gid + ".long", gid, chrom, strand, long_, True, "apa-pair"))
            for intr in g.transcripts[0].introns:
                w.plant_sites(chrom, intr, strand)
            w.genes.append(g)
            for t in g.transcripts:
                for mode in ("full", "full", "trunc5", "trunc5"):
                    for tailed in (True, False):
                        r = w.read_from_transcript(t, mode=mode, jitter=0, polya=tailed, flag=0 if strand == "+" else 16)
                        if r is not None:
                            r.truth["class"] = "conforming"
            pos += 4200 + 2500
    # NAGNAG-like loci: two annotated isoforms whose introns differ by 1..delta bp at ONE boundary (left or right); error-free
    # reads of either isoform must still name their own isoform
    if jitter > 0:
        from vlib.world import Gene, Transcript
        for ci, chrom in enumerate(w.chrom_order):
            pos = max([g.end for g in w.genes if g.chrom == chrom] + [1000]) + 2500
            for k in range(4):
                if pos + 8000 > w.chrom_len(chrom):
                    break
                strand = rng.choice("+-")
                ex = []
                p = pos
                for j in range(4):
                    L_ = rng.randint(180, 320)
                    ex.append((p, p + L_ - 1))
                    p += L_ + rng.randint(500, 900)
                d = rng.randint(1, min(jitter, 5))
                side = ("left", "right")[k % 2]
                j = rng.randint(0, 2)
                exb = list(ex)
                if side == "left":       # intron start differs: exon j ends d later
                    exb[j] = (ex[j][0], ex[j][1] + d)
                else:                    # intron end differs: exon j+1 starts d later
                    exb[j + 1] = (ex[j + 1][0] + d, ex[j + 1][1])
                gid = "NG%d_%d" % (ci + 1, k + 1)
                g = Gene(gid, chrom, strand)
                g.transcripts.append(Transcript(gid + ".tA", gid, chrom, strand, ex, True, "nagnag"))
                g.transcripts.append(Transcript(gid + ".tB", gid, chrom, strand, exb, True, "nagnag"))
                for t in g.transcripts:
                    for intr in t.introns:
                        w.plant_sites(chrom, intr, strand)
                w.genes.append(g)
                for t in g.transcripts:
                    for _ in range(4):
                        r = w.read_from_transcript(t, mode=rng.choice(("full", "full", "trunc_both")), jitter=0, polya=rng.random() < 0.5,
                                                   flag=rng.choice((0, 16)))
                        if r is not None:
                            r.truth["class"] = "conforming-nagnag"
                            r.truth["nagnag_side"] = side
                pos = p + rng.randint(2500, 3500)
    # a gene with two consecutive SHORT internal exons (90 bp each, below the 100 bp a misaligned exon may have) and reads whose single intron replaces
    # the three introns around them, each short exon glued onto its neighbour (total intron length unchanged): 180 exon bases are displaced
    from vlib.world import Gene, Transcript
    for ci, chrom in enumerate(w.chrom_order):
        p0 = max([g_.end for g_ in w.genes if g_.chrom == chrom] + [1000]) + 2500
        if p0 + 6500 > w.chrom_len(chrom):
            continue
        strand = "+-"[ci % 2]
        gid = "MRG%d" % (ci + 1)
        t1 = [(p0 + 1, p0 + 300), (p0 + 1301, p0 + 1390), (p0 + 2391, p0 + 2480), (p0 + 3481, p0 + 3800)]
        t2 = [t1[0], t1[1], t1[3]]
        g = Gene(gid, chrom, strand)
        g.transcripts.append(Transcript(gid + ".t1", gid, chrom, strand, t1, True, "two-short-internal-exons"))
        g.transcripts.append(Transcript(gid + ".t2", gid, chrom, strand, t2, True, "two-short-internal-exons"))
        for t in g.transcripts:
            for intr in t.introns:
                w.plant_sites(chrom, intr, strand)
        w.genes.append(g)
        for t in g.transcripts:
            for _ in range(3):
                r = w.make_read(chrom, list(t.exons), truth={"src": t.id, "class": "conforming", "mode": "full", "true_exons": list(t.exons), "strand": strand})
        for q in range(3):
            e2 = [(p0 + 1 + 10 * q, p0 + 390), (p0 + 3391, p0 + 3800 - 10 * q)]
            w.make_read(chrom, e2, truth={"src": gid + ".t1", "class": "two-merged-exons", "true_exons": e2, "strand": strand})
    return w


def run(chk, scratch):
    thorough = chk.tier == "thorough"
    chk.rule = ("worlds with multi-isoform, overlapping (shared exons) and antisense genes on both strands over 3 chromosomes; conforming reads derived from annotated "
                "isoforms (exact, 5'/3'/both-side truncated, junction jitter <= delta, exonic indels, =/X CIGAR operations with mismatching bases, polyA/polyT at the 3' end - soft-clipped, or partly aligned as a separate block on a genomic A/T stretch -, mono-exonic) and non-conforming reads "
                "(skipped exon >= 150 bp, extra exon, retained intron, intron retained inside a terminal exon by a read sharing its intron chain with an end-extended read, site shifted >= 110 bp, end extended >= 420 bp or by 150-280 bp (tail-less), terminal block running 350-500 bp into an intron, 5' end extended >= 420 bp on a read whose 3' end carries a polyA/polyT tail, hidden isoforms; half of them with a tolerated 15-40 bp terminal extension on top); matching presets x data types. "
                "non-trivial = distinct (isoform exon count, read mode, jitter, polyA, preset) among judged reads whose locus has >= 2 isoforms")
    jobs = []
    presets = ["exact", "precise", "default", "loose"]
    dts = ["assembly", "pacbio_ccs", "nanopore"]
    n_seeds = 8 if thorough else 1
    for si in range(n_seeds):
        for pi, p in enumerate(presets):
            jobs.append((chk.seed * 41 + si, p, dts[(si + pi) % 3]))

    def one(job):
        seed, preset, dt = job
        d = os.path.join(scratch, "w%d_%s" % (seed, preset))
        w = make_world(seed, DELTA[preset])
        pipeline.write_world(w, d)
        out = os.path.join(d, "out")
        r = pipeline.run(d, out, data_type=dt, threads=1 + (seed + len(preset)) % 2, extra=["--matching_strategy", preset, "--no_model_construction"])
        return job, d, w, out, r
    judged_c = judged_n = 0
    types_seen = defaultdict(int)
    for job, d, w, out, r in runner.parallel(one, jobs, workers=8):
        seed, preset, dt = job
        delta = DELTA[preset]
        desc = "world=%d preset=%s (delta %d) data_type=%s" % (seed, preset, delta, dt)
        wit = {"world_seed": seed, "preset": preset, "data_type": dt}
        if r["rc"] is None:
            chk.inconclusive.append("watchdog expired: " + desc)
            continue
        if r["rc"] != 0:
            chk.violation("run-failed", "%s: %s" % (desc, pipeline.fail_text(r)), wit)
            continue
        o = pipeline.Outputs(out)
        by_read = defaultdict(list)
        for a in o.assignments():
            by_read[a.read_id].append(a)
        iso = {t.id: t for t in w.all_transcripts()}
        by_chr = defaultdict(list)
        for t in iso.values():
            by_chr[t.chrom].append(t)
        for rd in w.reads:
            tr = rd.truth
            cls = tr.get("class")
            recs = by_read.get(rd.name, [])
            if not recs:
                if cls == "conforming":
                    chk.violation("conforming-read-not-reported", "%s: read %s (from %s, %s) absent from read_assignments.tsv" % (desc, rd.name, tr.get("src"), tr.get("mode")), wit)
                continue
            atype = recs[0].atype
            reported = set(a.isoform for a in recs if a.isoform != ".")
            types_seen[(cls, atype)] += 1
            aligned = rd.aligned_exons()
            span = (aligned[0][0], aligned[-1][1])
            overl = [t for t in by_chr[rd.chrom] if not (t.end < span[0] or t.start > span[1])]
            if cls == "conforming-nagnag":
                T = iso[tr["src"]]
                true_exons = [tuple(e) for e in tr["true_exons"]]
                judged_c += 1
                chk.note()
                chk.nontrivial.add(("nagnag", tr.get("nagnag_side"), tr.get("mode"), preset))
                if atype not in CONSISTENT:
                    chk.violation("conforming-read-inconsistent:nagnag", "%s: error-free read %s of %s reported %s" % (desc, rd.name, T.id, atype), wit)
                elif compat.full_length(T.exons, true_exons, 0) and T.id not in reported:
                    chk.violation("full-length-read-lacks-source-isoform:near-identical-%s-site" % tr.get("nagnag_side"),
                                  "%s: error-free full-length read %s of %s is reported on %s (%s) although its own isoform matches exactly" %
                                  (desc, rd.name, T.id, sorted(reported)[:3], atype), wit)
                continue
            if cls == "conforming":
                T = iso[tr["src"]]
                true_exons = [tuple(e) for e in tr["true_exons"]]
                loose = set(t.id for t in overl if compat.compatible(t.exons, true_exons, 50 + delta))
                strict = set(t.id for t in overl if compat.compatible(t.exons, true_exons, 0))
                judged_c += 1
                chk.note()
                ngene_iso = sum(1 for t in overl)
                if ngene_iso >= 2:
                    chk.nontrivial.add((min(len(T.exons), 8), tr.get("mode"), tr.get("jitter", 0) > 0, tr.get("polya"), preset, bool(tr.get("eqx"))))
                mode = tr.get("mode")
                if atype not in CONSISTENT:
                    ev = sorted(set(e.split(":")[0] for a in recs for e in a.events.split(",")))[:6]
                    chk.violation("conforming-read-inconsistent:%s:%s" % (mode, "polya" if tr.get("polya") else "nopolya"),
                                  "%s: read %s derived from %s (%s, jitter %s, indels %s, polyA %s) reported %s to %s with events %s" %
                                  (desc, rd.name, T.id, mode, tr.get("shifts"), tr.get("indels"), tr.get("polya"), atype, sorted(reported)[:3], ev), wit)
                    continue
                bad = reported - loose
                if bad:
                    chk.violation("reported-isoform-not-compatible:%s" % mode,
                                  "%s: read %s from %s (%s) reported on %s which is structurally incompatible (compatible: %s)" %
                                  (desc, rd.name, T.id, mode, sorted(bad)[:3], sorted(loose)[:5]), wit)
                if compat.full_length(T.exons, true_exons, delta) and T.id not in reported:
                    chk.violation("full-length-read-lacks-source-isoform", "%s: full-length read %s of %s reported on %s (%s)" %
                                  (desc, rd.name, T.id, sorted(reported)[:4], atype), wit)
                if loose == {T.id} and (atype not in ("unique", "unique_minor_difference") or reported != {T.id}):
                    chk.violation("only-compatible-isoform-not-unique:%s" % mode, "%s: read %s has %s as its only compatible isoform, reported %s on %s" %
                                  (desc, rd.name, T.id, atype, sorted(reported)[:4]), wit)
            elif cls in ("skipped-exon", "extra-exon", "retained-intron", "shifted-site", "extended-start", "extended-end", "hidden-isoform",
                         "extended-5prime-with-tail", "retained-terminal-intron", "end-inside-intron", "extra-exon-beyond-end", "two-merged-exons") or cls.startswith("site-moved-20-30") \
                    or cls.endswith("-150-280"):
                if not overl:
                    continue

                def differs(t):
                    if cls.startswith("site-moved-20-30"):
                        # preset 'exact' only: a read intron that no intron of the isoform approaches by less than 15 bp at both ends
                        ti = t.introns
                        return any(not any(abs(ri[0] - ii[0]) < 15 and abs(ri[1] - ii[1]) < 15 for ii in ti) for ri in parse.introns_of(aligned))
                    return compat.hard_difference(t.exons, aligned, end_far=140 if cls.endswith("-150-280") else 400)
                if all(differs(t) for t in overl):
                    judged_n += 1
                    chk.note()
                    chk.nontrivial.add((cls, preset) if cls != "extended-5prime-with-tail" else (cls, preset, tr.get("strand")))
                    if atype in CONSISTENT:
                        evn = set(e.split(":")[0] for a in recs for e in transform_split(a.events))
                        mech = cls
                        if any(e.startswith("terminal_exon_misalignment") for e in evn):
                            mech = "terminal-exon-of-similar-length-taken-for-misalignment"
                        chk.violation("non-conforming-read-consistent:%s" % mech,
                                      "%s: read %s (%s of %s, exons %s) differs from every overlapping isoform far beyond all tolerances but is reported %s to %s (%s)" %
                                      (desc, rd.name, cls, tr.get("src"), aligned[:4], atype, sorted(reported)[:3], recs[0].events[:80]), wit)
        chk.sample({"run": desc, "reads": len(w.reads), "reported": len(by_read)}, limit=3)
        if chk.violations and not getattr(chk, "witness_files", None):
            chk.witness_files = [os.path.join(d, f) for f in ("g.fa", "a.gtf", "r.bam", "r.bam.bai", "truth.json")]
        shutil.rmtree(out, ignore_errors=True)
    chk.extra.update({"conforming_reads_judged": judged_c, "non_conforming_reads_judged": judged_n,
                      "class_x_type": {"%s/%s" % k: v for k, v in sorted(types_seen.items())}})
    chk.assumptions = ["delta per preset from the documentation (0/4/6/12)", "'compatible' is judged with end tolerance 50+delta for 'every reported isoform is compatible' and for "
                       "'T is the only compatible isoform' (so both directions are conservative)",
                       "non-conforming reads are judged only when they differ from EVERY overlapping isoform by a hard difference (vlib/oracles/compat.py)",
                       "alternative splice sites of the isoforms of one generated gene lie 40-90 bp apart, i.e. further than 2*delta for every preset, except in the "
                       "NAGNAG-like loci (two isoforms differing by 1..delta bp at ONE boundary), whose reads are error-free: reads with JITTERED sites next to isoforms "
                       "whose sites are within 2*delta of each other (a read within delta of T can then be nearer to a site of S) are not generated "
                       "(DESIGN.md section 11 (p), C01 case 1)"]
    chk.inconclusive_if(judged_c == 0 or judged_n == 0, "no conforming or no non-conforming read judged")
    chk.min_nontrivial = 20
