"""C15 — saved read assignments round-trip losslessly and can be reused.

Monitors:
 (a) contract  deserialize(serialize(x)) == x  (field-by-field structural comparison written here) on the real
     ReadAssignment / IsoformMatch / MatchEvent / BasicReadAssignment (file format and pickle) / primitives, generated over the format's domain;
 (b) stream framing: random sequences of gene-info / assignment records written by the real TmpFileAssignmentPrinter,
     read back by BOTH real loaders; the abridged loader must stop at the same byte offsets and agree on shared fields;
 (c) real intermediate files of --keep_tmp CLI runs: full loader -> re-serialisation must reproduce the bytes;
     quick loader must stay aligned with the full loader on them;
 (d) --keep_tmp run followed by a --read_assignments run must reproduce the outputs.
"""
import io
import os
import re
import random
import shutil
from concurrent.futures import ProcessPoolExecutor

LEVEL = "exploration"

MAXU = (1 << 32) - 2       # TERMINATION_INT itself is reserved as a list terminator in the multimapper files
MAXS = (1 << 31) - 1


def rand_string(rng, kind=None):
    kind = kind or rng.choice(("empty", "short", "short", "short", "id", "long", "nonascii", "max"))
    if kind == "empty":
        return "", kind
    if kind == "short":
        return "".join(rng.choice("abcXYZ012_.:-|/") for _ in range(rng.randint(1, 12))), kind
    if kind == "id":
        return "read_%d/%s" % (rng.randint(0, 10**9), rng.choice(("ccs", "a;b=c", "x y"))), kind
    if kind == "long":
        return "L" * rng.randint(300, 5000), kind
    if kind == "nonascii":
        return "séq_中%d" % rng.randint(0, 99), kind
    return "m" * 65534, kind


def rand_uint(rng):
    c = rng.choice(("zero", "small", "coord", "sentinel", "big"))
    if c == "zero":
        return 0, c
    if c == "small":
        return rng.randint(1, 300), c
    if c == "coord":
        return rng.randint(1000, 250_000_000), c
    if c == "sentinel":
        return rng.choice(((1 << 30) - 1, (1 << 30) + 1, 1 << 31, (1 << 31) - 1)), c
    return rng.randint(1 << 31, MAXU), c


def rand_sint(rng):
    c = rng.choice(("zero", "neg1", "neg", "pos", "max"))
    if c == "zero":
        return 0, c
    if c == "neg1":
        return -1, c
    if c == "neg":
        return -rng.randint(2, MAXS), c
    if c == "pos":
        return rng.randint(1, 10**8), c
    return rng.choice((MAXS, -MAXS)), c


def same(a, b, path, diffs, tol=0.0):
    """structural comparison (recursive), not the classes' own __eq__"""
    if isinstance(a, float) or isinstance(b, float):
        if abs(a - b) > tol:
            diffs.append((path, a, b))
        return
    if type(a) != type(b) and not (isinstance(a, (list, tuple)) and isinstance(b, (list, tuple))):
        diffs.append((path, repr(a)[:80], repr(b)[:80]))
        return
    if isinstance(a, (list, tuple)):
        if len(a) != len(b):
            diffs.append((path + ".len", len(a), len(b)))
            return
        for i, (x, y) in enumerate(zip(a, b)):
            same(x, y, "%s[%d]" % (path, i), diffs, tol)
    elif isinstance(a, dict):
        if set(a) != set(b):
            diffs.append((path + ".keys", sorted(a), sorted(b)))
            return
        if list(a) != list(b):
            # mappings are ordered (e.g. tags in the order given to --bam_tags, which is the order they are printed in)
            diffs.append((path + ".key-order", list(a)[:6], list(b)[:6]))
            return
        for k in a:
            same(a[k], b[k], "%s[%r]" % (path, k), diffs, tol)
    elif hasattr(a, "__dict__") and not isinstance(a, type) and not hasattr(a, "name"):
        da, db = vars(a), vars(b)
        for k in sorted(set(da) | set(db)):
            if k == "gene_info":
                continue
            if k not in da or k not in db:
                diffs.append((path + "." + k, "present" if k in da else "absent", "present" if k in db else "absent"))
                continue
            same(da[k], db[k], path + "." + k, diffs, tol)
    else:
        if a != b:
            diffs.append((path, repr(a)[:80], repr(b)[:80]))


def _mods():
    from vlib import repo_import
    repo_import.setup_path()
    ser = repo_import.mod("src.serialization")
    ia = repo_import.mod("src.isoform_assignment")
    pf = repo_import.mod("src.polya_finder")
    aio = repo_import.mod("src.assignment_io")
    gi = repo_import.mod("src.gene_info")
    return ser, ia, pf, aio, gi


def gen_event(rng, ia, classes):
    et = rng.choice(list(ia.MatchEventSubtype))
    vals = []
    for _ in range(4):
        v, c = rand_uint(rng)
        vals.append(v)
        classes.add("event.region:" + c)
    info, c = rand_sint(rng)
    classes.add("event.info:" + c)
    return ia.MatchEvent(et, (vals[0], vals[1]), (vals[2], vals[3]), info)


def gen_match(rng, ia, classes):
    g, t = rng.choice(((None, None), ("G1", "T1"), ("gene/x", None), ("", "")))
    classes.add("match.ids:" + ("None" if g is None else "str") + ("/None" if t is None else "/str"))
    n_ev = rng.choice((0, 1, 1, 2, 5))
    classes.add("match.events:%s" % ("empty" if n_ev == 0 else "some"))
    evs = [gen_event(rng, ia, classes) for _ in range(n_ev)]
    m = ia.IsoformMatch(rng.choice(list(ia.MatchClassification)), g, t, None, rng.choice("+-."), 0)
    m.match_subclassifications = evs
    pen = rng.choice((0.0, 0.5, 1.0, 2.75, rng.randint(0, 1 << 22) / float(1 << 20)))
    classes.add("match.penalty:" + ("zero" if pen == 0 else "frac"))
    m.penalty_score = pen
    return m


def gen_assignment(rng, ia, pf, classes, ascii_only=False):
    ser_kind = None
    rid, k = rand_string(rng, rng.choice(("short", "id", "long")) if ascii_only else None)
    if k == "nonascii":
        rid, k = rand_string(rng, "id")   # BAM read names are printable ASCII by specification
    classes.add("read_id:" + k)
    ra = ia.ReadAssignment(rid, rng.choice([t for t in ia.ReadAssignmentType]))
    ra.assignment_id, c = rand_uint(rng)
    classes.add("assignment_id:" + c)
    a, _ = rand_uint(rng)
    b, _ = rand_uint(rng)
    ra.genomic_region = (a, b)
    n_ex = rng.choice((1, 1, 2, 3, 12))
    pos = rng.randint(1, 10**6)
    ex = []
    for _ in range(n_ex):
        s = pos + rng.randint(1, 5000)
        e = s + rng.randint(0, 3000)
        ex.append((s, e))
        pos = e + 1
    ra.exons = ex
    ce = list(ex)
    if rng.random() < 0.5:
        ce = [(s + rng.randint(0, 3), e) for s, e in ex]
    ra.corrected_exons = ce
    ra.corrected_introns = [(ce[i][1] + 1, ce[i + 1][0] - 1) for i in range(len(ce) - 1) if ce[i][1] + 1 < ce[i + 1][0]]
    ra.multimapper = rng.random() < 0.5
    ra.polyA_found = rng.random() < 0.5
    ra.cage_found = rng.random() < 0.5
    vals = []
    for _ in range(4):
        v, c = rand_sint(rng)
        vals.append(v)
        classes.add("polya:" + c)
    ra.polya_info = pf.PolyAInfo(*vals)
    g, k = rand_string(rng, rng.choice(("short", "empty", "nonascii", "long")) if not ascii_only else "short")
    classes.add("read_group:" + k)
    ra.read_group = g
    ra.mapped_strand = rng.choice("+-.")
    ra.strand = rng.choice("+-.")
    ra.chr_id, k = rand_string(rng, rng.choice(("short", "id")))
    ra.mapping_quality = rng.choice((0, 1, 60, 255))
    ra.gene_assignment_type = rng.choice([t for t in ia.ReadAssignmentType])
    nm = rng.choice((0, 1, 1, 2, 4))
    classes.add("matches:%s" % ("empty" if nm == 0 else "some"))
    ra.isoform_matches = [gen_match(rng, ia, classes) for _ in range(nm)]
    d = {}
    for _ in range(rng.choice((0, 0, 1, 3))):
        key, _k = rand_string(rng, "short")
        t = rng.choice(("int", "str", "pair"))
        if t == "int":
            v, c = rand_sint(rng)
            classes.add("dict.int:" + c)
            d[key] = v
        elif t == "str":
            d[key], c = rand_string(rng, rng.choice(("short", "empty", "long")))
            classes.add("dict.str:" + c)
        else:
            v1, c1 = rand_sint(rng)
            v2, c2 = rand_sint(rng)
            classes.add("dict.pair:" + c1)
            d[key] = (v1, v2)
    ra.additional_info = d
    d2 = {}
    for _ in range(rng.choice((0, 0, 2))):
        key, _k = rand_string(rng, "short")
        d2[key], _c = rand_string(rng, rng.choice(("short", "empty")))
    ra.additional_attributes = d2
    ra.introns_match = rng.random() < 0.5
    ra.exon_gene_profile = [rng.choice((-2, -1, 0, 1)) for _ in range(rng.choice((0, 0, 3, 40)))]
    ra.intron_gene_profile = [rng.choice((-2, -1, 0, 1)) for _ in range(rng.choice((0, 0, 3, 40)))]
    classes.add("profiles:%s" % ("empty" if not ra.exon_gene_profile else "some"))
    return ra


def _worker(job):
    ser, ia, pf, aio, gi = _mods()
    kind, seed, count, scratch = job
    rng = random.Random(seed)
    res = {"n": 0, "viol": [], "classes": set(), "fields": 0, "samples": [], "streams": 0, "records": 0}

    def rt(name, obj, serialize, deserialize, tol=0.0):
        buf = io.BytesIO()
        try:
            serialize(obj, buf)
            data = buf.getvalue()
            back = deserialize(io.BytesIO(data))
        except Exception as e:
            res["viol"].append((name + ":exception", repr(e)[:200], describe(obj)))
            return None
        diffs = []
        same(obj, back, name, diffs, tol)
        res["fields"] += 1
        if diffs:
            p = diffs[0][0]
            res["viol"].append((name + ":field-differs:" + strip_index(p), "%s: wrote %r, read %r" % diffs[0], describe(obj)))
        # nothing may be left unread / over-read
        return data

    if kind == "objects":
        for _ in range(count):
            res["n"] += 1
            classes = set()
            c = rng.random()
            if c < 0.15:
                v, k = rand_uint(rng)
                rt("write_int", v, lambda o, f: ser.write_int(o, f), ser.read_int)
                v, k = rand_sint(rng)
                classes.add("int_neg:" + k)
                rt("write_int_neg", v, lambda o, f: ser.write_int_neg(o, f), ser.read_int_neg)
                s, k = rand_string(rng)
                classes.add("string:" + k)
                rt("write_string", s, lambda o, f: ser.write_string(o, f), ser.read_string)
                s2 = None if rng.random() < 0.3 else s
                if s2 is None or len(s2) < 65535:
                    rt("write_string_or_none", s2, lambda o, f: ser.write_string_or_none(o, f), ser.read_string_or_none)
                    classes.add("string_or_none:" + ("None" if s2 is None else k))
                n = rng.randint(0, 8)
                arr = [rng.random() < 0.5 for _ in range(n)]
                rt("write_bool_array", arr, lambda o, f: ser.write_bool_array(o, f), lambda f: ser.read_bool_array(f, n))
                d = {}
                for _i in range(rng.randint(0, 4)):
                    kk, _ = rand_string(rng, "short")
                    t = rng.choice(("int", "str", "pair"))
                    if t == "int":
                        d[kk], kc = rand_sint(rng)
                        classes.add("dict.int:" + kc)
                    elif t == "str":
                        d[kk], kc = rand_string(rng, rng.choice(("short", "empty", "long")))
                    else:
                        d[kk] = (rand_sint(rng)[0], rand_sint(rng)[0])
                        classes.add("dict.pair")
                rt("write_dict", d, lambda o, f: ser.write_dict(o, f), ser.read_dict)
                lst = [rand_sint(rng)[0] for _i in range(rng.choice((0, 1, 7)))]
                rt("write_list(int_neg)", lst, lambda o, f: ser.write_list(o, f, ser.write_int_neg),
                   lambda f: ser.read_list(f, ser.read_int_neg))
                pairs = [(rand_uint(rng)[0], rand_uint(rng)[0]) for _i in range(rng.choice((0, 1, 5)))]
                rt("write_list_of_pairs", pairs, lambda o, f: ser.write_list_of_pairs(o, f, ser.write_int),
                   lambda f: ser.read_list_of_pairs(f, ser.read_int))
            elif c < 0.3:
                ev = gen_event(rng, ia, classes)
                rt("MatchEvent", ev, lambda o, f: o.serialize(f), ia.MatchEvent.deserialize)
            elif c < 0.45:
                m = gen_match(rng, ia, classes)
                rt("IsoformMatch", m, lambda o, f: o.serialize(f), ia.IsoformMatch.deserialize, tol=2.0 ** -20)
            else:
                ra = gen_assignment(rng, ia, pf, classes)
                data = rt("ReadAssignment", ra, lambda o, f: o.serialize(f), lambda f: ia.ReadAssignment.deserialize(f, None),
                          tol=2.0 ** -20)
                # abridged reader vs constructor, and byte alignment
                if data is not None:
                    try:
                        f = io.BytesIO(data)
                        quick = ia.BasicReadAssignment.deserialize_from_read_assignment(f)
                        if f.tell() != len(data):
                            res["viol"].append(("quick-loader:misaligned", "consumed %d of %d bytes" % (f.tell(), len(data)), describe(ra)))
                        ref = ia.BasicReadAssignment(ra)
                        for fld in ("assignment_id", "read_id", "chr_id", "start", "end", "genomic_region", "multimapper",
                                    "polyA_found", "assignment_type", "gene_assignment_type"):
                            if getattr(quick, fld) != getattr(ref, fld):
                                res["viol"].append(("quick-loader:field-differs:" + fld,
                                                    "%r vs %r" % (getattr(quick, fld), getattr(ref, fld)), describe(ra)))
                        if set(quick.genes) != set(ref.genes) or set(quick.isoforms) != set(ref.isoforms):
                            res["viol"].append(("quick-loader:field-differs:genes/isoforms", "", describe(ra)))
                        if abs(quick.penalty_score - ref.penalty_score) > 2.0 ** -20:
                            res["viol"].append(("quick-loader:field-differs:penalty_score",
                                                "%r vs %r" % (quick.penalty_score, ref.penalty_score), describe(ra)))
                        # BasicReadAssignment own format
                        rt("BasicReadAssignment", ref, lambda o, ff: o.serialize(ff), ia.BasicReadAssignment.deserialize,
                           tol=2.0 ** -20)
                        # ... and the form in which the abridged record travels from a worker process to the main process (pickle:
                        # --high_memory with several threads)
                        import pickle
                        rt("BasicReadAssignment.pickle", ref, lambda o, ff: ff.write(pickle.dumps(o)), lambda ff: pickle.loads(ff.read()))
                    except Exception as e:
                        res["viol"].append(("quick-loader:exception", repr(e)[:200], describe(ra)))
                if len(res["samples"]) < 2:
                    res["samples"].append(describe(ra))
            res["classes"] |= classes
    elif kind == "streams":
        from types import SimpleNamespace
        os.makedirs(scratch, exist_ok=True)
        for si in range(count):
            res["streams"] += 1
            res["n"] += 1
            path = os.path.join(scratch, "stream_%d_%d" % (seed, si))
            classes = set()
            printer = aio.TmpFileAssignmentPrinter(path, SimpleNamespace())
            written = []
            n_rec = rng.choice((0, 1, 3, 10, 40))
            have_gene = False
            for _ in range(n_rec):
                if not have_gene or rng.random() < 0.3:
                    g = gi.GeneInfo.from_region("chr%d" % rng.randint(1, 3), rng.randint(1, 10**6), rng.randint(10**6, 10**7),
                                                delta=rng.choice((0, 4, 6, 12)))
                    printer.add_gene_info(g)
                    written.append(("G", g))
                    have_gene = True
                    if rng.random() < 0.2:
                        continue     # gene info without reads
                ra = gen_assignment(rng, ia, pf, classes)
                printer.add_read_info(ra)
                written.append(("R", ra))
            classes.add("stream:%s" % ("empty" if n_rec == 0 else ("gene-without-reads" if any(
                written[i][0] == "G" and (i + 1 == len(written) or written[i + 1][0] == "G") for i in range(len(written))) else "plain")))
            del printer   # the stream terminator is written by the real __del__
            try:
                full = aio.NormalTmpFileAssignmentLoader(path, None, None)
                quick = aio.QuickTmpFileAssignmentLoader(path)
                idx = 0
                while full.has_next():
                    if not quick.has_next():
                        res["viol"].append(("stream:quick-loader-ends-early", "at record %d" % idx, ""))
                        break
                    if full.current_id != quick.current_id:
                        res["viol"].append(("stream:record-kind-differs", "at record %d" % idx, ""))
                        break
                    o1 = full.get_object()
                    o2 = quick.get_object()
                    res["records"] += 1
                    if full.loader.tell() != quick.loader.tell():
                        res["viol"].append(("stream:quick-loader-misaligned", "record %d: full at %d, quick at %d" %
                                            (idx, full.loader.tell(), quick.loader.tell()), ""))
                        break
                    kind_w, obj = written[idx]
                    if kind_w == "R":
                        diffs = []
                        same(obj, o1, "ReadAssignment", diffs, 2.0 ** -20)
                        if diffs:
                            res["viol"].append(("stream:ReadAssignment:field-differs:" + strip_index(diffs[0][0]),
                                                "%s: wrote %r, read %r" % diffs[0], describe(obj)))
                        if o2.read_id != obj.read_id or o2.assignment_id != obj.assignment_id:
                            res["viol"].append(("stream:quick-loader:field-differs", "", describe(obj)))
                    else:
                        for fld in ("chr_id", "start", "end", "delta"):
                            if getattr(o1, fld) != getattr(obj, fld):
                                res["viol"].append(("stream:GeneInfo:field-differs:" + fld, "", ""))
                    idx += 1
                if idx != len(written):
                    res["viol"].append(("stream:record-count", "wrote %d, read %d" % (len(written), idx), ""))
                if quick.has_next() and not full.has_next():
                    res["viol"].append(("stream:quick-loader-does-not-end", "", ""))
            except Exception as e:
                res["viol"].append(("stream:exception", repr(e)[:200], ""))
            res["classes"] |= classes
            os.remove(path)
    res["classes"] = sorted(res["classes"])
    return res


def strip_index(p):
    import re
    return re.sub(r"\[[^\]]*\]", "[]", p)


def describe(o):
    try:
        d = {}
        for k, v in vars(o).items():
            r = repr(v)
            d[k] = r if len(r) < 120 else r[:117] + "..."
        return d
    except TypeError:
        r = repr(o)
        return r if len(r) < 200 else r[:197] + "..."


# ------------------------------------------------------------------ CLI part
def cli_part(chk, scratch, n_pairs):
    from vlib import world, runner
    ser, ia, pf, aio, gi = _mods()
    import gffutils
    from pyfaidx import Fasta

    def one(i):
        # (every third pair works in a folder whose name has characters that are special in glob patterns: saved prefixes are looked up by pattern)
        d = os.path.join(scratch, "cli%d%s" % (i, "[1]" if i % 3 == 2 else ""))
        os.makedirs(d)
        seed = chk.seed * 100 + i
        if i % 2 == 1:
            # polyA-rich data with multi-mapped reads: the polyA share decides whether model construction requires tails, and
            # multi-mapped reads take another path through the saved files than uniquely mapped ones
            from vlib import world2
            w = world2.rich_world(seed, n_chroms=3, genes_per_chrom=3, polya_frac=0.97, hidden_cov=6, unmapped=4, extra_len=32000,
                                  read_modes=("full", "full", "full", "trunc5"))
        else:
            w = world.standard_world(seed, n_chroms=2, genes_per_chrom=4, hidden=True, chrom_len=100000)
            world.add_standard_reads(w, per_transcript=6, jitter=3, hidden_cov=5)
        if i % 2 == 1:
            # polyA-rich data must stay clearly above the share at which model construction starts to require tails (0.7): every read derived from
            # a transcript that has no soft-clipped tail yet gets one at its 3' end
            iso_ = {t_.id: t_ for t_ in w.all_transcripts()}
            for g_ in w.genes:
                for t_ in g_.hidden:
                    iso_[t_.id] = t_
            for r_ in w.reads:
                t_ = iso_.get(r_.truth.get("src")) if isinstance(r_.truth, dict) else None
                if t_ is None or r_.flag & 4 or not r_.cigar:
                    continue
                if t_.strand == "+" and r_.cigar[-1][0] != 4:
                    r_.cigar = list(r_.cigar) + [(4, 30)]
                    r_.seq = r_.seq + "A" * 30
                elif t_.strand == "-" and r_.cigar[0][0] != 4:
                    r_.cigar = [(4, 30)] + list(r_.cigar)
                    r_.seq = "T" * 30 + r_.seq
        # consecutive gene-info records with the SAME region and different gene lists (a gene nested in an intron of another one, reads in
        # separate clusters), and one isoform seen from two clusters
        from vlib import world2 as _w2
        for ci_, chrom_ in enumerate(w.chrom_order[:2]):
            last_ = max([g.end for g in w.genes if g.chrom == chrom_] + [r.pos0 + 20000 for r in w.reads if r.chrom == chrom_] + [1000]) + 4000
            if last_ + 24000 < w.chrom_len(chrom_):
                _w2.nested_gene_locus(w, "NE%d" % ci_, chrom_, last_, "+-"[(i + ci_) % 2])
                _w2.two_cluster_gene(w, "TC%d" % ci_, chrom_, last_ + 12500, "+-"[(i + ci_ + 1) % 2])
                chk.count("nested_gene_loci_in_reuse_worlds")
        # reads that stick out of their gene: one with an extra exon upstream (left) of the gene, later ones running past its right end (the
        # loader re-derives the reference window of a gene-info block from the reads it has loaded so far)
        n_out_ = 0
        for g_ in list(w.genes):
            t_ = g_.transcripts[0] if g_.transcripts else None
            if t_ is None or len(t_.exons) < 3 or n_out_ >= 4 or t_.exons[0][0] < 1500 or t_.exons[-1][1] + 900 > w.chrom_len(t_.chrom):
                continue
            if any(g2.chrom == g_.chrom and g2 is not g_ and not (g2.end < t_.exons[0][0] - 1200 or g2.start > t_.exons[-1][1] + 900) for g2 in w.genes):
                continue
            ex_ = list(t_.exons)
            w.plant_sites(t_.chrom, (ex_[0][0] - 699, ex_[0][0] - 1), t_.strand)
            tl_ = {"polya": 30} if t_.strand == "+" else {"polyt": 30, "flag": 16}
            w.make_read(t_.chrom, [(ex_[0][0] - 900, ex_[0][0] - 700)] + ex_, truth={"src": t_.id, "class": "extra-exon-left-of-the-gene"}, **tl_)
            for q_ in range(2):
                w.make_read(t_.chrom, ex_[:-1] + [(ex_[-1][0], ex_[-1][1] + 300 + 200 * q_)], truth={"src": t_.id, "class": "runs-past-the-right-end"}, **tl_)
            n_out_ += 1
        # reads with tags and groups
        for r in w.reads:
            r.tags = [("RG", "grp%d" % (hash(r.name) % 3))]
        w.write_fasta(os.path.join(d, "g.fa"))
        w.write_gtf(os.path.join(d, "a.gtf"))
        w.write_bam(os.path.join(d, "r.bam"))
        home = os.path.join(d, "home")
        opts = ["-d", ("nanopore", "pacbio_ccs", "assembly")[i % 3], "-g", os.path.join(d, "a.gtf"), "--complete_genedb",
                "-r", os.path.join(d, "g.fa"), "-t", str(1 + i % 2), "--no_gzip", "--force"]
        bam_args = ["--bam", os.path.join(d, "r.bam")]
        if i % 6 == 0:
            opts += ["--count_exons", "--read_group", "tag:RG", "--bam_tags", "RG"]
        elif i % 6 == 2:
            # groups from a table (the restarted run gets the very same options; the groups are stored with the saved assignments)
            with open(os.path.join(d, "groups.tsv"), "w") as f_:
                for n_ in sorted(set(r.name for r in w.reads)):
                    if hash(n_) % 7:
                        f_.write("%s\tgrp%d\n" % (n_, hash(n_) % 3))
            opts += ["--count_exons", "--read_group", "file:" + os.path.join(d, "groups.tsv"), "--bam_tags", "RG"]
        elif i % 6 == 4:
            # one experiment of two files, grouped by file (explicitly, or implicitly because there are two files): novel transcripts must
            # then be supported by reads of both files, and the restarted run sees ONE saved prefix instead of two files
            import zlib
            # the reads of every second unannotated isoform are all in the first file (such a model is not reported by the saving run)
            one_file_ = set(t_.id for g_ in w.genes for k_, t_ in enumerate(g_.hidden) if (k_ + len(g_.id)) % 2 == 0)
            chk.count("reuse_unannotated_isoforms_seen_in_one_file_only", len(one_file_))

            def file_of_(r):
                if isinstance(r.truth, dict) and r.truth.get("src") in one_file_:
                    return 0
                return zlib.crc32(r.name.encode()) % 3 % 2
            for fi_ in (0, 1):
                w.write_bam(os.path.join(d, "rep%d.bam" % fi_), reads=[r for r in w.reads if file_of_(r) == fi_])
            bam_args = ["--bam", os.path.join(d, "rep0.bam"), os.path.join(d, "rep1.bam")]
            opts += ["--count_exons"] + (["--read_group", "file_name"] if i % 12 == 4 else [])
        if i % 3 == 1:
            opts += ["--check_canonical", "--sqanti_output"]
        if i % 4 == 1:
            opts += ["--high_memory"]
        r1 = runner.run_isoquant(["-o", os.path.join(d, "o1")] + bam_args + ["-p", "SMP", "--keep_tmp"] + opts, home)
        r2 = None
        saved = {}
        if r1["rc"] == 0:
            import glob
            import hashlib
            aux = os.path.join(d, "o1", "SMP", "aux")
            before = {p: hashlib.sha256(open(p, "rb").read()).hexdigest() for p in glob.glob(os.path.join(glob.escape(aux), "SMP.save*")) if not p.endswith(("_lock", "_processed"))}
            r2 = runner.run_isoquant(["-o", os.path.join(d, "o2"), "--read_assignments", os.path.join(d, "o1", "SMP", "aux", "SMP.save"),
                                      "-p", "SMP"] + opts, home)
            after = {p: (hashlib.sha256(open(p, "rb").read()).hexdigest() if os.path.exists(p) else None) for p in before}
            saved = {"files": len(before), "removed": sorted(os.path.basename(p) for p in before if after[p] is None),
                     "changed": sorted(os.path.basename(p) for p in before if after[p] is not None and after[p] != before[p])}
            if r2["rc"] == 0 and i % 3 != 2:
                # the saved assignments are reusable more than once: the same restart again, into another folder
                saved["again"] = runner.run_isoquant(["-o", os.path.join(d, "o3"), "--read_assignments", os.path.join(d, "o1", "SMP", "aux", "SMP.save"),
                                                      "-p", "SMP"] + opts, home)
        if r1["rc"] == 0 and i % 6 == 0:
            # a second saving run with the same options on other data (every second read), then ONE run restarted from both saved prefixes:
            # experiment k of that run is what the k-th saving run produced
            import zlib
            w.write_bam(os.path.join(d, "r_b.bam"), reads=[r for r in w.reads if zlib.crc32(r.name.encode()) % 2 == 0])
            rb = runner.run_isoquant(["-o", os.path.join(d, "o1b"), "--bam", os.path.join(d, "r_b.bam"), "-p", "SMP", "--keep_tmp"] + opts, home)
            if rb["rc"] == 0:
                saved["both"] = runner.run_isoquant(["-o", os.path.join(d, "o4"), "--read_assignments", os.path.join(d, "o1", "SMP", "aux", "SMP.save"),
                                                     os.path.join(d, "o1b", "SMP", "aux", "SMP.save"), "-p", "SMP"] + opts, home)
            else:
                saved["both_saving_failed"] = rb["out"][-300:]
        r1["saved"] = saved
        return d, r1, r2, opts

    results = runner.parallel(one, list(range(n_pairs)), workers=8)
    for i, (d, r1, r2, opts) in enumerate(results):
        key = "reuse:" + " ".join(o for o in opts if o.startswith("--") and o not in ("--force", "--no_gzip", "--complete_genedb"))
        if r1["rc"] is None or (r2 is not None and r2["rc"] is None):
            chk.inconclusive.append("watchdog expired in CLI pair %d" % i)
            continue
        if r1["rc"] != 0:
            chk.violation("reuse:saving-run-failed", "the --keep_tmp run exited %s: %s" % (r1["rc"], r1["out"][-400:]), {"opts": opts})
            continue
        if r2["rc"] != 0:
            chk.violation("reuse:run-from-saved-assignments-failed", "--read_assignments run exited %s: %s" % (r2["rc"], r2["out"][-400:]),
                          {"opts": opts})
            continue
        # (d) the saved files survive their reuse unchanged, and can be reused again
        sv = r1.get("saved", {})
        chk.count("saved_files_checked_after_reuse", sv.get("files", 0))
        if sv.get("removed") or sv.get("changed"):
            chk.violation("reuse:saved-assignments-%s-by-the-restarted-run" % ("removed" if sv.get("removed") else "changed"),
                          "after the --read_assignments run, of %d saved files removed: %s changed: %s" % (sv.get("files", 0), sv.get("removed")[:4], sv.get("changed")[:4]), {"opts": opts})
        if sv.get("again") is not None:
            r3 = sv["again"]
            chk.note()
            if r3["rc"] is None:
                chk.inconclusive.append("watchdog expired in the second restart of CLI pair %d" % i)
            elif r3["rc"] != 0:
                chk.violation("reuse:second-run-from-saved-assignments-failed", "second --read_assignments run from the same saved files exited %s: %s" % (r3["rc"], r3["out"][-300:]), {"opts": opts})
            else:
                for fn in sorted(os.listdir(os.path.join(d, "o2", "SMP0"))):
                    p2, p3 = os.path.join(d, "o2", "SMP0", fn), os.path.join(d, "o3", "SMP0", fn)
                    if os.path.isdir(p2):
                        continue
                    if not os.path.exists(p3) or runner.normalized(p2) != runner.normalized(p3):
                        chk.violation("reuse:second-restart-differs:" + fn.split(".", 1)[1], "%s differs between the first and the second run from the same saved assignments" % fn, {"opts": opts})
                chk.count("second_restarts_compared")
        if sv.get("both_saving_failed"):
            chk.inconclusive.append("second saving run of CLI pair %d failed: %s" % (i, sv["both_saving_failed"]))
        if sv.get("both") is not None:
            r4 = sv["both"]
            chk.note()
            if r4["rc"] is None:
                chk.inconclusive.append("watchdog expired in the restart from two saved prefixes of CLI pair %d" % i)
            elif r4["rc"] != 0:
                chk.violation("reuse:run-from-two-saved-prefixes-failed", "--read_assignments with two saved prefixes exited %s: %s" % (r4["rc"], r4["out"][-300:]), {"opts": opts})
            else:
                for k_, src_ in enumerate(("o1", "o1b")):
                    for fn in sorted(os.listdir(os.path.join(d, src_, "SMP"))):
                        p1_ = os.path.join(d, src_, "SMP", fn)
                        p4_ = os.path.join(d, "o4", "SMP%d" % k_, fn.replace("SMP.", "SMP%d." % k_, 1))
                        if os.path.isdir(p1_):
                            continue
                        a_ = [l for l in runner.normalized(p1_).split(b"\n") if not l.endswith(b"IsoQuant generated GTF")]
                        b_ = [l for l in runner.normalized(p4_).split(b"\n") if not l.endswith(b"IsoQuant generated GTF")] if os.path.exists(p4_) else None
                        if a_ != b_:
                            chk.violation("reuse:two-saved-prefixes:experiment-differs:" + fn.split(".", 1)[1],
                                          "experiment %d of the run restarted from two saved prefixes: %s %s" % (k_, fn, "is missing" if b_ is None else "differs from the run that saved it"),
                                          {"opts": opts})
                chk.count("restarts_from_two_saved_prefixes_compared")
        # (d) the statistics the saving run worked with are the ones the restarted run reads back
        stat = []
        for r_ in (r1, r2):
            m_ = re.findall(r"Total assignments used for analysis: (\d+), polyA tail detected in (\d+)", r_["out"])
            stat.append(m_[-1] if m_ else None)
        if stat[0] is None or stat[1] is None:
            chk.inconclusive.append("assignment statistics line not found in the log of CLI pair %d" % i)
        elif stat[0] != stat[1]:
            chk.violation("reuse:assignment-statistics-differ", "saving run worked with (assignments, polyA) = %s, the run from saved assignments with %s" %
                          (stat[0], stat[1]), {"opts": opts})
        else:
            chk.count("reuse_polya_share_%s" % ("high" if int(stat[0][1]) >= 0.7 * int(stat[0][0]) else "low"))
            chk.extra.setdefault("reuse_polya_shares", []).append(round(int(stat[0][1]) / max(1, int(stat[0][0])), 3))
        # (d) outputs
        o1 = os.path.join(d, "o1", "SMP")
        o2 = os.path.join(d, "o2", "SMP0")
        ndiff = 0
        for fn in sorted(os.listdir(o1)):
            p1 = os.path.join(o1, fn)
            if os.path.isdir(p1):
                continue
            p2 = os.path.join(o2, fn.replace("SMP.", "SMP0.", 1))
            chk.note()
            if not os.path.exists(p2):
                chk.violation("reuse:output-missing:" + fn.split(".", 1)[1], "file %s missing in the run from saved assignments" % fn, {"opts": opts})
                ndiff += 1
                continue
            a = [l for l in runner.normalized(p1).split(b"\n") if not l.endswith(b"IsoQuant generated GTF")]
            b = [l for l in runner.normalized(p2).split(b"\n") if not l.endswith(b"IsoQuant generated GTF")]
            if a != b:
                first = next((x for x in zip(a, b) if x[0] != x[1]), (b"", b""))
                chk.violation("reuse:output-differs:" + fn.split(".", 1)[1],
                              "%s differs between the saving run and the run from saved assignments; first differing line %r vs %r" %
                              (fn, first[0][:150], first[1][:150]), {"opts": opts})
                ndiff += 1
        chk.nontrivial.add(key)
        chk.count("reuse_pairs_compared")
        # (c) real intermediate files: re-encoding fix-point + loader alignment
        db = gffutils.FeatureDB(os.path.join(d, "o1", "a.db"))
        fa = Fasta(os.path.join(d, "g.fa"))
        saved_alignments = {}          # read id -> [(chr, start, end)] over the per-chromosome files
        for chrom in fa.keys():
            path = os.path.join(d, "o1", "SMP", "aux", "SMP.save_" + chrom)
            if not os.path.exists(path):
                continue
            raw = open(path, "rb").read()
            full = aio.NormalTmpFileAssignmentLoader(path, db, fa[chrom])
            quick = aio.QuickTmpFileAssignmentLoader(path)
            out = io.BytesIO()
            nrec = 0
            block_span = None
            while full.has_next():
                kind_is_gene = full.is_gene_info()
                o1_ = full.get_object()
                o2_ = quick.get_object()
                nrec += 1
                if kind_is_gene:
                    block_span = None
                elif o1_.exons:
                    # the reference window of the gene-info block covers every read loaded from the block so far and holds that stretch of the FASTA
                    block_span = (min(block_span[0], o1_.exons[0][0]), max(block_span[1], o1_.exons[-1][1])) if block_span else (o1_.exons[0][0], o1_.exons[-1][1])
                    gi_ = o1_.gene_info
                    chk.count("reference_windows_checked")
                    if gi_.all_read_region_start > block_span[0] or gi_.all_read_region_end < block_span[1]:
                        chk.violation("realfile:reference-window-does-not-cover-the-loaded-reads", "file %s record %d (read %s): window %d-%d, reads loaded from this block "
                                      "span %d-%d" % (os.path.basename(path), nrec, o1_.read_id, gi_.all_read_region_start, gi_.all_read_region_end, block_span[0], block_span[1]), {"opts": opts})
                        break
                    if gi_.reference_region != str(fa[chrom][gi_.all_read_region_start - 1:gi_.all_read_region_end]):
                        chk.violation("realfile:reference-window-holds-another-sequence", "file %s record %d (read %s): window %d-%d" %
                                      (os.path.basename(path), nrec, o1_.read_id, gi_.all_read_region_start, gi_.all_read_region_end), {"opts": opts})
                        break
                    if block_span[0] < gi_.start or block_span[1] > gi_.end:
                        chk.count("reference_windows_wider_than_the_gene")
                if full.loader.tell() != quick.loader.tell():
                    chk.violation("realfile:quick-loader-misaligned", "file %s record %d" % (os.path.basename(path), nrec), None)
                    break
                ser.write_short_int(aio.TmpFileAssignmentPrinter.GENE_INFO if kind_is_gene else aio.TmpFileAssignmentPrinter.READ_ASSIGNMENT, out)
                o1_.serialize(out)
                if not kind_is_gene:
                    saved_alignments.setdefault(o2_.read_id, []).append((o2_.chr_id, o2_.start, o2_.end))
                    ref = ia.BasicReadAssignment(o1_)
                    if (ref.read_id, ref.chr_id, ref.start, ref.end, ref.assignment_type, ref.gene_assignment_type, set(ref.isoforms), set(ref.genes),
                        ref.multimapper, ref.polyA_found) != \
                       (o2_.read_id, o2_.chr_id, o2_.start, o2_.end, o2_.assignment_type, o2_.gene_assignment_type, set(o2_.isoforms), set(o2_.genes),
                            o2_.multimapper, o2_.polyA_found):
                        chk.violation("realfile:quick-loader-disagrees", "read %s" % ref.read_id, None)
            ser.write_short_int(ser.SHORT_TERMINATION_INT, out)
            chk.note(n=nrec)
            chk.count("real_records_reencoded", nrec)
            if out.getvalue() != raw:
                chk.violation("realfile:reencoding-differs", "deserialize+serialize of %s does not reproduce its bytes (%d vs %d bytes)" %
                              (os.path.basename(path), len(out.getvalue()), len(raw)), None)
        # (c) the files of resolved multi-mapped reads: the reader of chromosome X opens only the file of X and keeps records of X, so
        # every record must sit in the file of its own chromosome, and every alignment of a read saved more than once must have one
        in_streams = {}
        for chrom in fa.keys():
            path = os.path.join(d, "o1", "SMP", "aux", "SMP.save_multimappers_" + chrom)
            if not os.path.exists(path):
                continue
            with open(path, "rb") as f:
                try:
                    n = ser.read_int(f)
                    while n != ser.TERMINATION_INT:
                        for _ in range(n):
                            a = ia.BasicReadAssignment.deserialize(f)
                            chk.note()
                            chk.count("multimapper_records_read")
                            in_streams.setdefault(a.read_id, []).append((a.chr_id, a.start, a.end))
                            if a.chr_id != chrom:
                                chk.violation("multimapper-stream:record-in-file-of-another-chromosome",
                                              "record of read %s on %s:%d-%d (%s) is stored in %s, which only the reader of %s opens" %
                                              (a.read_id, a.chr_id, a.start, a.end, a.assignment_type.name, os.path.basename(path), chrom), {"opts": opts})
                        n = ser.read_int(f)
                    if f.read(1):
                        chk.violation("multimapper-stream:bytes-after-terminator", "%s has bytes after its terminator" % os.path.basename(path), {"opts": opts})
                except Exception as e:
                    chk.violation("multimapper-stream:unreadable", "%s: %s: %s" % (os.path.basename(path), type(e).__name__, e), {"opts": opts})
        for rid, als in saved_alignments.items():
            if len(als) > 1 and sorted(als) != sorted(in_streams.get(rid, [])):
                chk.violation("multimapper-stream:alignments-not-conserved", "read %s has saved alignments %s, the multimapper files hold %s" %
                              (rid, sorted(als)[:4], sorted(in_streams.get(rid, []))[:4]), {"opts": opts})
        shutil.rmtree(d, ignore_errors=True)


def run(chk, scratch):
    thorough = chk.tier == "thorough"
    n_obj = 600000 if thorough else 24000
    n_streams = 5000 if thorough else 240
    n_pairs = 24 if thorough else 5
    chk.rule = ("generated values over the format's representable domain (uints < 2^32-1 incl. sentinels, signed < 2^31, None ids, empty lists, "
                "all enum members, strings up to 65534 chars incl. non-ASCII group names, penalties multiples of 2^-20); random streams of gene-info/"
                "assignment records through both real loaders; real --keep_tmp files re-encoded, the files of resolved multi-mapped reads read back (every record in the file of its own chromosome, every alignment of a read saved more than once present); --read_assignments reuse pairs (polyA-poor and polyA-rich data, multi-mapped reads, --high_memory saving runs; assignment statistics and every output compared). "
                "non-trivial = distinct (field, value class) combinations seen + reuse option sets")
    jobs = []
    for i in range(16):
        jobs.append(("objects", chk.seed * 131 + i, n_obj // 16, None))
    for i in range(16):
        jobs.append(("streams", chk.seed * 733 + i, max(1, n_streams // 16), os.path.join(scratch, "streams%d" % i)))
    fields = 0
    streams = 0
    records = 0
    with ProcessPoolExecutor(max_workers=16) as ex:
        for job, res in zip(jobs, ex.map(_worker, jobs)):
            chk.note(n=res["n"])
            fields += res["fields"]
            streams += res["streams"]
            records += res["records"]
            for c in res["classes"]:
                chk.nontrivial.add(c)
            for s in res["samples"]:
                chk.sample(s, limit=3)
            for key, text, obj in res["viol"]:
                chk.violation(key, "%s %s" % (key, text), {"object": obj})
    cli_part(chk, scratch, n_pairs)
    chk.inconclusive_if(chk.extra.get("reuse_polya_share_high", 0) == 0, "no reuse pair on data whose polyA share is above the construction threshold")
    chk.extra.update({"roundtrips": fields, "streams": streams, "stream_records": records,
                      "value_classes": sorted(c for c in chk.nontrivial if not c.startswith("reuse:"))})
    chk.assumptions = ["structural comparison in vlib/checks/c15.py", "penalties compared with tolerance 2^-20 (stored as floor(x*2^20))",
                       "65535-char strings collide with the None marker by design and are excluded",
                       "read ids / chromosome names ASCII (BAM specification); group names may be non-ASCII"]
    chk.inconclusive_if(fields == 0, "no object round trip executed")
    chk.inconclusive_if(chk.extra.get("multimapper_records_read", 0) == 0, "no record of a resolved multi-mapped read seen in the saved files")
    chk.inconclusive_if(records == 0, "no stream record read")
    chk.inconclusive_if(chk.extra.get("reuse_pairs_compared", 0) == 0, "no reuse pair compared")
    chk.min_nontrivial = 20
