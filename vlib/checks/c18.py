"""C18 — strand and canonical-site flags are pure functions of the reference sequence.

Monitors: the launcher's `canon` monitor logs every IOSupport.check_sites_are_canonical query (introns, strand, answer,
locus object) — the offline oracle reads the dinucleotides from the FASTA; at the output level the `Canonical=` value
of every read_assignments.tsv line and the `Canonical` attribute of every transcript record are recomputed from the
reference for the reported strand; the strand of novel spliced models is compared with the available evidence.
"""
import os
import re
import shutil
from collections import defaultdict

from vlib import runner, pipeline, world, parse
from vlib.world import World, Gene, Transcript

LEVEL = "exploration"

FWD = {("GT", "AG"), ("GC", "AG"), ("AT", "AC")}
REV = {("CT", "AC"), ("CT", "GC"), ("GT", "AT")}


def sites(w, chrom, intron):
    s = w.chroms[chrom]
    return ("".join(s[intron[0] - 1:intron[0] + 1]).upper(), "".join(s[intron[1] - 2:intron[1]]).upper())


def canonical(w, chrom, introns, strand):
    table = FWD if strand == "+" else REV
    return all(sites(w, chrom, i) in table for i in introns)


def site_strand(w, chrom, introns):
    f = sum(1 for i in introns if sites(w, chrom, i) in FWD)
    r = sum(1 for i in introns if sites(w, chrom, i) in REV)
    if f == r:
        return "."
    return "+" if f > r else "-"


def shared_intron_locus(w, gid, chrom, pos, order, site_class):
    """Two genes on opposite strands that share one intron exactly.
    A(+) = [E1, E2, E3]; B(-) = [E2b, E3b, E4] with E2b.end == E2.end and E3b.start == E3.start.
    order 'A-first': A's reads start left of B's reads; 'B-first': mirrored placement."""
    rng = w.rng

    def L(a, b):
        return rng.randint(a, b)
    if order == "A-first":
        e1 = (pos, pos + L(150, 250))
        e2 = (e1[1] + L(400, 700), 0)
        e2 = (e2[0], e2[0] + L(200, 300))
        e3 = (e2[1] + L(500, 800), 0)
        e3 = (e3[0], e3[0] + L(300, 400))
        e2b = (e2[0] + 80, e2[1])
        e3b = (e3[0], e3[0] + 150)
        e4 = (e3[1] + L(400, 600), 0)
        e4 = (e4[0], e4[0] + L(200, 300))
        a_ex = [e1, e2, e3]
        b_ex = [e2b, e3b, e4]
    else:
        # B extends to the left, A to the right
        e0 = (pos, pos + L(150, 250))
        e2 = (e0[1] + L(400, 700), 0)
        e2 = (e2[0], e2[0] + L(200, 300))
        e3 = (e2[1] + L(500, 800), 0)
        e3 = (e3[0], e3[0] + L(300, 400))
        e2a = (e2[0] + 80, e2[1])
        e3a = (e3[0], e3[0] + 150)
        e5 = (e3[1] + L(400, 600), 0)
        e5 = (e5[0], e5[0] + L(200, 300))
        b_ex = [e0, e2, e3]
        a_ex = [e2a, e3a, e5]
    ga = Gene(gid + "A", chrom, "+")
    ga.transcripts.append(Transcript(gid + "A.t1", gid + "A", chrom, "+", a_ex, True, "shared-intron"))
    gb = Gene(gid + "B", chrom, "-")
    gb.transcripts.append(Transcript(gid + "B.t1", gid + "B", chrom, "-", b_ex, True, "shared-intron"))
    shared = (e2[1] + 1, e3[0] - 1)
    for t, st in ((ga.transcripts[0], "+"), (gb.transcripts[0], "-")):
        for intr in t.introns:
            if intr != shared:
                w.plant_sites(chrom, intr, st, "canonical")
    # shared intron: canonical for '+', for '-', or for neither
    w.plant_sites(chrom, shared, "+", {"plus": "canonical", "minus": "opposite", "none": "none"}[site_class])
    w.genes += [ga, gb]
    end = max(a_ex[-1][1], b_ex[-1][1])
    return ga, gb, shared, end


def contested_intron_locus(w, gid, chrom, pos, true_strand, wrong_first):
    """An intron I1 annotated on isoforms of BOTH strands (one isoform of the strand the reference supports, two of the other),
    and an unannotated isoform of the supported strand that uses I1 followed by an intron whose sites are canonical on neither
    strand: the only informative splice site and the tails of its reads name the supported strand, the annotation majority
    names the other one."""
    span = 2000

    def m(a, b):       # mirror local coordinates for '-' so that the novel part is always at the 3' side
        return (pos + a, pos + b) if true_strand == "+" else (pos + span - b, pos + span - a)

    def exs(lst):
        e = [m(a, b) for a, b in lst]
        return sorted(e)
    other = "-" if true_strand == "+" else "+"
    tp1 = exs([(0, 300), (600, 900), (1500, 1800)])
    tm1 = exs([(120, 300), (600, 760)])
    tm2 = exs([(40, 300), (600, 840)])
    novel = exs([(0, 300), (600, 800), (1100, 1400)])
    gs = Gene(gid + "P", chrom, true_strand)
    gs.transcripts.append(Transcript(gid + "P.t1", gid + "P", chrom, true_strand, tp1, True, "contested-intron"))
    gs.hidden.append(Transcript(gid + "P.h1", gid + "P", chrom, true_strand, novel, False, "contested-intron-novel"))
    go = Gene(gid + "M", chrom, other)
    go.transcripts.append(Transcript(gid + "M.t1", gid + "M", chrom, other, tm1, True, "contested-intron"))
    go.transcripts.append(Transcript(gid + "M.t2", gid + "M", chrom, other, tm2, True, "contested-intron"))
    for i in gs.transcripts[0].introns:
        w.plant_sites(chrom, i, true_strand, "canonical")
    contested = [i for i in gs.transcripts[0].introns if i in go.transcripts[0].introns][0]
    for i in gs.hidden[0].introns:
        if i != contested:
            w.plant_sites(chrom, i, true_strand, "none")
    w.genes += [go, gs] if wrong_first else [gs, go]
    return pos + span


def make_world(seed):
    w = World(seed)
    rng = w.rng
    truth_shared = []
    for ci in range(2):
        chrom = "chr%d" % (ci + 1)
        w.add_chrom(chrom, 440000)
        # an unannotated locus whose reads start at the very first base of the sequence
        g = Gene("START%d" % (ci + 1), chrom, "+-"[ci])
        g.hidden.append(Transcript(g.id + ".h1", g.id, chrom, "+-"[ci], [(1, 250), (600, 800), (1100, 1400)], False, "first-base-novel"))
        for intr in g.hidden[0].introns:
            w.plant_sites(chrom, intr, "+-"[ci], "canonical")
        w.genes.append(g)
        pos = 2000
        # a gene annotated WITHOUT a strand ('.', legal in GTF): two isoforms whose introns are all canonical on one strand in the reference;
        # untailed reads of a novel combination of these introns (the strand of the model can only come from the reference sequence)
        ts_ = "+-"[ci]
        g = Gene("DOT%d" % (ci + 1), chrom, ".")
        e_ = [(pos, pos + 250), (pos + 600, pos + 800), (pos + 1200, pos + 1400), (pos + 1800, pos + 2000), (pos + 2400, pos + 2700)]
        g.transcripts.append(Transcript(g.id + ".t1", g.id, chrom, ".", e_[:3], True, "unstranded-annotation"))
        g.transcripts.append(Transcript(g.id + ".t2", g.id, chrom, ".", e_[2:], True, "unstranded-annotation"))
        g.hidden.append(Transcript(g.id + ".h1", g.id, chrom, ts_, list(e_), False, "unstranded-annotation-novel"))
        for intr in g.hidden[0].introns:
            w.plant_sites(chrom, intr, ts_, "canonical")
        w.genes.append(g)
        pos += 2700 + rng.randint(2500, 3500)
        k = 0
        for order in ("A-first", "B-first"):
            for sc in ("plus", "minus", "none"):
                k += 1
                ga, gb, shared, end = shared_intron_locus(w, "S%d_%d" % (ci + 1, k), chrom, pos, order, sc)
                truth_shared.append((chrom, shared, order, sc))
                pos = end + rng.randint(2500, 3500)
        for k, (ts, wf) in enumerate((("+", True), ("-", True), ("+", False), ("-", False))):
            end = contested_intron_locus(w, "V%d_%d" % (ci + 1, k + 1), chrom, pos, ts, wf)
            pos = end + rng.randint(2500, 3500)
        # unannotated loci whose splice sites are a TIE (one intron canonical on '+', one on '-', optionally a third one canonical on
        # neither strand): only the tails of the reads decide the strand
        for k, (ts, mid) in enumerate((("+", False), ("-", False), ("+", True), ("-", True), ("+", "notail"), ("-", "notail"))):
            notail = mid == "notail"
            mid = False if notail else mid
            ex = [(pos, pos + 300), (pos + 700, pos + 950), (pos + 1400, pos + 1700)]
            classes = [("+", "canonical"), ("-", "canonical")]
            if mid:
                ex = ex[:2] + [(pos + 1400, pos + 1600), (pos + 2000, pos + 2300)]
                classes = [("+", "canonical"), ("+", "none"), ("-", "canonical")]
            if k % 2:
                classes = classes[::-1]
            g = Gene("TIE%d_%d" % (ci + 1, k + 1), chrom, ts)
            t = Transcript(g.id + ".h1", g.id, chrom, ts, ex, False, "splice-site-tie-no-tail" if notail else "splice-site-tie")
            g.hidden.append(t)
            for intr, (st_, cl_) in zip(t.introns, classes):
                w.plant_sites(chrom, intr, st_, cl_)
            w.genes.append(g)
            pos = ex[-1][1] + rng.randint(2500, 3500)
        # novel isoform that shares its first (last) intron with an annotated gene of strand S, while its two other introns are canonical
        # on the OTHER strand and its reads carry tails of the other strand: splice-site majority and tails agree, the annotation does not
        for k, ann_strand in enumerate("-+"):
            nov_strand = "+" if ann_strand == "-" else "-"
            a = [(pos, pos + 300), (pos + 800, pos + 1100)]
            n = [(pos, pos + 300), (pos + 800, pos + 1000), (pos + 1500, pos + 1800), (pos + 2300, pos + 2600)]
            if nov_strand == "-":
                span = 2600
                a = sorted((2 * pos + span - e, 2 * pos + span - s_) for s_, e in a)
                n = sorted((2 * pos + span - e, 2 * pos + span - s_) for s_, e in n)
            g = Gene("MIX%d_%d" % (ci + 1, k + 1), chrom, ann_strand)
            g.transcripts.append(Transcript(g.id + ".t1", g.id, chrom, ann_strand, a, True, "mixed-introns-host"))
            g.hidden.append(Transcript(g.id + ".h1", g.id, chrom, nov_strand, n, False, "mixed-introns-novel"))
            shared = g.transcripts[0].introns[0]
            w.plant_sites(chrom, shared, ann_strand, "canonical")
            for intr in g.hidden[0].introns:
                if intr != shared:
                    w.plant_sites(chrom, intr, nov_strand, "canonical")
            w.genes.append(g)
            pos += 2600 + rng.randint(2500, 3500)
        # two unannotated isoforms of OPPOSITE strands in one locus that share an intron canonical on neither strand: the longer one has two
        # more introns canonical on its strand and tails of its strand, the shorter one has no informative site at all and tails of the other
        # strand (what is decided for the first must not be handed on to the second through the shared intron)
        for k, s1 in enumerate("+-"):
            s2 = "-" if s1 == "+" else "+"
            span = 3500

            def mm(lst):
                return [(pos + a, pos + b) for a, b in lst] if s1 == "+" else sorted((pos + span - b, pos + span - a) for a, b in lst)
            p1 = mm([(0, 300), (700, 950), (1400, 1700), (2300, 2600)])
            p2 = mm([(1500, 1700), (2300, 2600), (3200, 3500)])
            g = Gene("PAIR%d_%d" % (ci + 1, k + 1), chrom, s1)
            g.hidden.append(Transcript(g.id + ".h1", g.id, chrom, s1, p1, False, "opposite-strand-pair-long"))
            g.hidden.append(Transcript(g.id + ".h2", g.id, chrom, s2, p2, False, "opposite-strand-pair-short"))
            shared_x = [i for i in g.hidden[0].introns if i in g.hidden[1].introns]
            for intr in g.hidden[0].introns:
                w.plant_sites(chrom, intr, s1, "none" if intr in shared_x else "canonical")
            for intr in g.hidden[1].introns:
                if intr not in shared_x:
                    w.plant_sites(chrom, intr, s1, "none")
            w.genes.append(g)
            pos += span + rng.randint(2500, 3500)
        # ordinary genes with all site classes, hidden isoforms for novel models
        for gi, sc in enumerate(("canonical", "gc_ag", "at_ac", "opposite", "none", "canonical")):
            g, end = w.make_gene("G%d_%d" % (ci + 1, gi + 1), chrom, pos, rng.choice("+-"), n_exons=rng.randint(4, 6),
                                 n_iso=rng.randint(1, 3), site_class=sc,
                                 hidden_kinds=("nnic_skip", "nnic_site") if sc in ("canonical", "gc_ag", "opposite") else ())
            pos = end + rng.randint(2500, 3500)
    # twin loci: identical exon coordinates and strand on chr1 and chr2, different splice-site classes
    # (an answer memorised for one chromosome must not be reused for the other)
    pos = 200000
    for k, (sc1, sc2) in enumerate((("canonical", "none"), ("none", "canonical"), ("canonical", "opposite"))):
        strand = "+-"[k % 2]
        ex = []
        p = pos
        for j in range(4):
            L_ = rng.randint(150, 300)
            ex.append((p, p + L_ - 1))
            p += L_ + rng.randint(400, 700)
        for chrom, sc in (("chr1", sc1), ("chr2", sc2)):
            g = Gene("W%s_%d" % (chrom[-1], k + 1), chrom, strand)
            g.transcripts.append(Transcript(g.id + ".t1", g.id, chrom, strand, list(ex), True, "twin"))
            g.site_class = sc
            for intr in g.transcripts[0].introns:
                w.plant_sites(chrom, intr, strand, sc)
            w.genes.append(g)
        pos = p + 3000
    # reads
    for g in w.genes:
        for t in g.transcripts:
            n = 8 if t.kind == "shared-intron" else 5
            if t.kind == "unstranded-annotation":
                continue
            for _ in range(n):
                w.read_from_transcript(t, mode="full", jitter=0, polya=rng.random() < 0.6, flag=rng.choice((0, 16)))
            if t.kind != "shared-intron" and len(t.exons) >= 3:
                # reads with an extra flanking exon/intron OUTSIDE the gene region (left and right)
                ex = list(t.exons)
                left_exon = (ex[0][0] - 900, ex[0][0] - 700)
                right_exon = (ex[-1][1] + 700, ex[-1][1] + 900)
                if left_exon[0] > 100:
                    w.plant_sites(t.chrom, (left_exon[1] + 1, ex[0][0] - 1), t.strand, "canonical")
                    w.make_read(t.chrom, [left_exon] + ex, truth={"src": t.id, "class": "extra-left-exon-outside-gene"})
                w.plant_sites(t.chrom, (ex[-1][1] + 1, right_exon[0] - 1), t.strand, "canonical")
                w.make_read(t.chrom, ex + [right_exon], truth={"src": t.id, "class": "extra-right-exon-outside-gene"})
        for t in g.hidden:
            for _ in range(24 if t.kind == "contested-intron-novel" else 12 if t.kind in ("splice-site-tie", "splice-site-tie-no-tail", "mixed-introns-novel", "opposite-strand-pair-long", "opposite-strand-pair-short", "unstranded-annotation-novel") else 7):
                w.read_from_transcript(t, mode="full", jitter=0, polya=t.kind not in ("splice-site-tie-no-tail", "unstranded-annotation-novel"), flag=rng.choice((0, 16)))
    from vlib import world2
    world2.add_zoo(w)
    return w, truth_shared


def run(chk, scratch):
    thorough = chk.tier == "thorough"
    chk.rule = ("worlds with introns canonical on '+', on '-', on neither (GT-AG, GC-AG, AT-AC and reverse complements), loci where a '+' and a '-' "
                "isoform share an intron exactly (both processing orders x three site classes), reads with extra introns outside the gene region, "
                "a soft-masked copy of the reference (same sequence, lower-case stretches) must give identical outputs; novel isoforms sharing one intron with a gene of the other strand; unannotated loci whose splice sites are a tie between the strands (tails decide), hidden isoforms for novel models (also over an intron annotated on both strands, the annotation majority contradicting the reference); --check_canonical with every --report_canonical level and thread counts; every logged "
                "check_sites_are_canonical query, every Canonical= TSV value, every Canonical GTF attribute and every novel model strand is judged. "
                "non-trivial = distinct (intron, strand) pairs queried; of special interest introns queried with both strands in one locus")
    n_seeds = 8 if thorough else 2
    levels = ["only_canonical", "only_stranded", "all", "auto"]
    jobs = []
    for si in range(n_seeds):
        for li, lvl in enumerate(levels if thorough else levels[:2] if si == 0 else levels[2:]):
            jobs.append((chk.seed * 40 + si, lvl, 1 if (si + li) % 2 == 0 else 3))
    worlds = {}

    def one(job):
        seed, lvl, threads = job
        d = os.path.join(scratch, "w%d_%s" % (seed, lvl))
        w, shared = make_world(seed)
        pipeline.write_world(w, d)
        # the reference is the product of an earlier IsoQuant run with --check_canonical: every third transcript record already carries a
        # Canonical attribute (a stale one: "False") and every gene record a transcripts attribute
        lines_ = open(os.path.join(d, "a.gtf")).read().splitlines()
        k_ = 0
        for i_, l_ in enumerate(lines_):
            f_ = l_.split("\t")
            if len(f_) > 8 and f_[2] == "transcript":
                k_ += 1
                if k_ % 3 == 0:
                    lines_[i_] = l_ + ' Canonical "False";'
            elif len(f_) > 8 and f_[2] == "gene":
                lines_[i_] = l_ + ' transcripts "7";'
        with open(os.path.join(d, "a.gtf"), "w") as f__:
            f__.write("\n".join(lines_) + "\n")
        out = os.path.join(d, "out")
        ev = os.path.join(d, "ev")
        r = pipeline.run(d, out, threads=threads, extra=["--check_canonical", "--report_canonical", lvl,
                                                         "--model_construction_strategy", "sensitive_ont"] +
                         (["--polya_requirement", "never"] if (seed + len(lvl)) % 2 == 0 else []),
                         mon=["canon"], events=ev)
        # the same run on a soft-masked copy of the reference (lower-case stretches): the sequence is the same
        if job == jobs[0] or job == jobs[-1]:
            dm = os.path.join(d, "masked")
            os.makedirs(dm)
            mrng = __import__("random").Random(seed)
            with open(os.path.join(d, "g.fa")) as src, open(os.path.join(dm, "g.fa"), "w") as dst:
                for line in src:
                    dst.write(line if line.startswith(">") or mrng.random() < 0.4 else line.lower())
            shutil.copy(os.path.join(d, "g.fa.fai"), os.path.join(dm, "g.fa.fai"))
            for f in ("a.gtf", "r.bam", "r.bam.bai"):
                os.symlink(os.path.join(d, f), os.path.join(dm, f))
            rm_ = pipeline.run(dm, os.path.join(dm, "out"), threads=threads, home=os.path.join(dm, "home"),
                               extra=["--check_canonical", "--report_canonical", lvl, "--model_construction_strategy", "sensitive_ont"] +
                               (["--polya_requirement", "never"] if (seed + len(lvl)) % 2 == 0 else []))
            r["masked"] = (rm_, os.path.join(dm, "out"))
        # the reference compressed with plain gzip, in an output folder that an earlier run used for ANOTHER genome with the same file name:
        # the flags are functions of the reference given to THIS run
        if job == jobs[1 % len(jobs)]:
            import gzip
            dz = os.path.join(d, "gz")
            os.makedirs(os.path.join(dz, "other"))
            os.makedirs(os.path.join(dz, "this"))
            comp = bytes.maketrans(b"ACGTacgt", b"CATGcatg")
            with open(os.path.join(d, "g.fa"), "rb") as src, gzip.open(os.path.join(dz, "this", "g.fa.gz"), "wb") as a_, gzip.open(os.path.join(dz, "other", "g.fa.gz"), "wb") as b_:
                for line in src:
                    a_.write(line)
                    b_.write(line if line.startswith(b">") else line.translate(comp))
            zargs = ["-d", "nanopore", "-g", os.path.join(d, "a.gtf"), "--complete_genedb", "--bam", os.path.join(d, "r.bam"), "-t", str(threads), "-p", pipeline.PREFIX,
                     "--no_gzip", "--force", "--check_canonical", "--report_canonical", lvl, "--model_construction_strategy", "sensitive_ont"] + \
                    (["--polya_requirement", "never"] if (seed + len(lvl)) % 2 == 0 else [])
            zout = os.path.join(dz, "out")
            runner.run_isoquant(["-o", zout, "-r", os.path.join(dz, "other", "g.fa.gz")] + zargs + ["--no_model_construction"], os.path.join(dz, "home"))
            rz = runner.run_isoquant(["-o", zout, "-r", os.path.join(dz, "this", "g.fa.gz")] + zargs, os.path.join(dz, "home"))
            r["gz"] = (rz, zout)
        return job, d, w, shared, out, ev, r
    both_strands = 0
    queries = 0
    for job, d, w, shared, out, ev, r in runner.parallel(one, jobs, workers=8):
        seed, lvl, threads = job
        desc = "world=%d report_canonical=%s threads=%d" % (seed, lvl, threads)
        wit = {"world_seed": seed, "report_canonical": lvl, "threads": threads}
        if r["rc"] is None:
            chk.inconclusive.append("watchdog expired: " + desc)
            continue
        if r["rc"] != 0:
            chk.violation("run-failed", "run failed (%s): %s" % (desc, pipeline.fail_text(r)), wit)
            continue
        if r.get("masked"):
            rm_, mout = r["masked"]
            chk.count("soft_masked_runs")
            if rm_["rc"] != 0:
                chk.violation("soft-masked-reference:run-failed", "%s: run on the soft-masked copy of the reference exited %s: %s" % (desc, rm_["rc"], pipeline.fail_text(rm_)), wit)
            else:
                for rel, why in runner.compare_trees(os.path.join(out, pipeline.PREFIX), os.path.join(mout, pipeline.PREFIX))[:6]:
                    chk.violation("soft-masked-reference-changes-output:%s" % (rel.split(".", 1)[1] if "." in rel else rel),
                                  "%s: %s %s between the upper-case reference and its soft-masked (partly lower-case) copy" % (desc, rel, why), wit)
        if r.get("gz"):
            rz, zout = r["gz"]
            chk.count("gz_reference_in_used_folder_runs")
            if rz["rc"] != 0:
                chk.violation("gz-reference-in-used-folder:run-failed", "%s: exited %s: %s" % (desc, rz["rc"], pipeline.fail_text(rz)), wit)
            else:
                for rel, why in runner.compare_trees(os.path.join(out, pipeline.PREFIX), os.path.join(zout, pipeline.PREFIX))[:6]:
                    chk.violation("flags-follow-another-reference:%s" % (rel.split(".", 1)[1] if "." in rel else rel),
                                  "%s: %s %s between the run on the plain FASTA and the run on its gzipped copy in an output folder used before for another genome" % (desc, rel, why), wit)
        # (1) function level: the query log
        per_locus = defaultdict(lambda: defaultdict(set))
        for e in runner.load_events(ev):
            if e["k"] != "canon":
                continue
            if e["strand"] not in ("+", "-"):
                continue
            introns = [tuple(i) for i in e["introns"]]
            queries += 1
            chk.note()
            exp = canonical(w, e["chr"], introns, e["strand"])
            for i in introns:
                per_locus[(e["pid"], e["locus"])][i].add(e["strand"])
                chk.nontrivial.add((seed, e["chr"], i, e["strand"]))
            if bool(e["res"]) != exp:
                kinds = set()
                for i in introns:
                    st = per_locus[(e["pid"], e["locus"])][i]
                    kinds.add("asked-on-both-strands" if len(st) > 1 else "single-strand")
                chk.violation("query-answer-differs-from-reference:" + "+".join(sorted(kinds)),
                              "%s: check_sites_are_canonical(%s, strand %s) answered %s, reference says %s (sites %s)" %
                              (desc, introns[:4], e["strand"], e["res"], exp, [sites(w, e["chr"], i) for i in introns[:4]]), wit)
        both_strands += sum(1 for loc in per_locus.values() for st in loc.values() if len(st) > 1)
        # (2) output level: TSV
        o = pipeline.Outputs(out)
        n_tsv = 0
        truth = {rd.name: rd.truth for rd in w.reads}
        for a in o.assignments():
            if "Canonical" not in a.info:
                continue
            introns = parse.introns_of(a.exons)
            val = a.info["Canonical"]
            n_tsv += 1
            chk.note()
            if not introns:
                if val != "Unspliced":
                    chk.violation("tsv-flag:mono-exonic-not-Unspliced", "%s: read %s Canonical=%s" % (desc, a.read_id, val), wit)
                continue
            if a.strand not in ("+", "-"):
                # undefined strand: canonical means canonical with respect to ONE of the two strands (all introns on the same one)
                exp_u = str(canonical(w, a.chr, introns, "+") or canonical(w, a.chr, introns, "-"))
                chk.count("undefined_strand_flags_judged")
                if val != exp_u:
                    chk.violation("tsv-flag-differs-from-reference:undefined-strand",
                                  "%s: read %s strand '.' introns %s: Canonical=%s, no single strand makes all introns canonical: expected %s (sites %s)" %
                                  (desc, a.read_id, introns[:3], val, exp_u, [sites(w, a.chr, i) for i in introns[:3]]), wit)
                continue
            exp = str(canonical(w, a.chr, introns, a.strand))
            if val != exp:
                cls = truth.get(a.read_id, {}).get("class") or ("shared-intron-locus" if a.gene.startswith("S") else "ordinary")
                chk.violation("tsv-flag-differs-from-reference:" + cls,
                              "%s: read %s strand %s introns %s: Canonical=%s, reference says %s (sites %s)" %
                              (desc, a.read_id, a.strand, introns[:3], val, exp, [sites(w, a.chr, i) for i in introns[:3]]), wit)
        # (3) GTF attribute + novel model strand
        ref_ids = set(t.id for t in w.all_transcripts())
        annotated_intron_strand = defaultdict(set)
        for t in w.all_transcripts():
            for i in t.introns:
                annotated_intron_strand[(t.chrom, i)].add(t.strand)
        hidden_by_chain = {(t.chrom, tuple(t.introns)): t for g in w.genes for t in g.hidden}
        n_gtf = 0
        for fname in ("transcript_models.gtf", "extended_annotation.gtf"):
            # one Canonical attribute per transcript record, one transcripts attribute per gene record
            for l_ in open(o.path(fname)):
                f_ = l_.rstrip("\n").split("\t")
                if len(f_) > 8 and f_[2] in ("transcript", "gene"):
                    for key_ in (("Canonical",) if f_[2] == "transcript" else ("transcripts",)):
                        vals_ = re.findall(r'(?:^|; ?)%s "([^"]*)"' % key_, f_[8])
                        chk.count("records_checked_for_repeated_attributes")
                        if len(vals_) > 1:
                            chk.violation("gtf-flag:attribute-repeated:%s" % key_, "%s: %s record carries %s %d times (%s) in %s: %s" %
                                          (desc, f_[2], key_, len(vals_), vals_, fname, f_[8][:160]), wit)
                            break
        for fname, gm in (("transcript_models.gtf", o.models()), ("extended_annotation.gtf", o.extended())):
            for tid, recs in gm.transcript_recs.items():
                t = gm.transcripts.get(tid)
                if t is None:
                    continue
                introns = parse.introns_of(t["exons"])
                val = recs[0].attrs.get("Canonical")
                if val is None and fname == "transcript_models.gtf" and tid not in ref_ids:
                    # every run of this check has --check_canonical: a novel model without the flag was not compared with the reference at all
                    chk.violation("gtf-flag:novel-model-without-Canonical", "%s: %s (%s:%s) carries no Canonical attribute" %
                                  (desc, tid, t["chr"], t["exons"][:2]), wit)
                if val is not None:
                    n_gtf += 1
                    chk.note()
                    if not introns:
                        if val != "Unspliced":
                            chk.violation("gtf-flag:mono-exonic-not-Unspliced", "%s: %s Canonical %s" % (desc, tid, val), wit)
                    elif t["strand"] not in ("+", "-"):
                        exp_u = str(canonical(w, t["chr"], introns, "+") or canonical(w, t["chr"], introns, "-"))
                        chk.count("undefined_strand_flags_judged")
                        if val != exp_u:
                            chk.violation("gtf-flag-differs-from-reference:undefined-strand",
                                          "%s: %s (%s) strand '.' Canonical \"%s\", expected %s (canonical on one of the strands)" % (desc, tid, fname, val, exp_u), wit)
                    elif t["strand"] in ("+", "-"):
                        exp = str(canonical(w, t["chr"], introns, t["strand"]))
                        if val != exp:
                            chk.violation("gtf-flag-differs-from-reference:" + ("reference" if tid in ref_ids else "novel"),
                                          "%s: %s (%s) strand %s Canonical \"%s\", reference says %s" % (desc, tid, fname, t["strand"], val, exp), wit)
                if tid not in ref_ids and introns and fname == "transcript_models.gtf":
                    ev_s = site_strand(w, t["chr"], introns)
                    evidence = {}
                    if ev_s != ".":
                        evidence["splice-sites"] = ev_s
                    ann = set()
                    for i in introns:
                        ann |= annotated_intron_strand.get((t["chr"], i), set())
                    if len(ann) == 1 and list(ann)[0] in ("+", "-"):
                        evidence["annotated-introns"] = list(ann)[0]
                    h = hidden_by_chain.get((t["chr"], tuple(introns)))
                    if h is not None:
                        evidence["polyA-of-source-reads"] = h.strand
                    # per-intron vote: an intron annotated on ONE strand votes for it, any other intron votes by its reference dinucleotides
                    votes = {"+": 0, "-": 0}
                    for i in introns:
                        a_ = annotated_intron_strand.get((t["chr"], i), set())
                        v_ = list(a_)[0] if len(a_) == 1 and list(a_)[0] in ("+", "-") else site_strand(w, t["chr"], [i])
                        if v_ in votes:
                            votes[v_] += 1
                    if votes["+"] != votes["-"] and t["strand"] in ("+", "-") and t["strand"] != ("+" if votes["+"] > votes["-"] else "-"):
                        chk.violation("novel-model-strand-contradicts-intron-majority",
                                      "%s: %s reported on %s, its introns vote %s (annotated strand where annotated on one strand, reference dinucleotides otherwise)" %
                                      (desc, tid, t["strand"], votes), wit)
                    if h is not None and h.kind == "unstranded-annotation-novel":
                        chk.count("novel_models_over_introns_annotated_without_strand")
                        if t["strand"] != h.strand:
                            chk.violation("novel-model-strand:introns-annotated-without-strand",
                                          "%s: %s reported on '%s'; its introns are annotated without a strand and are all canonical on %s in the reference" %
                                          (desc, tid, t["strand"], h.strand), wit)
                    chk.count("novel_model_strands_judged")
                    if h is not None and h.kind == "contested-intron-novel":
                        chk.count("novel_models_over_an_intron_annotated_on_both_strands")
                    if h is not None and h.kind == "splice-site-tie":
                        chk.count("novel_models_with_tied_splice_sites")
                    if h is not None and h.kind == "opposite-strand-pair-short":
                        chk.count("novel_models_sharing_an_uninformative_intron_with_a_model_of_the_other_strand")
                    if h is not None and h.kind == "mixed-introns-novel":
                        chk.count("novel_models_with_mixed_introns")
                    if t["strand"] in ("+", "-") and evidence and t["strand"] not in evidence.values():
                        chk.violation("novel-model-strand-contradicts-all-evidence",
                                      "%s: %s reported on %s, evidence %s" % (desc, tid, t["strand"], evidence), wit)
        chk.count("tsv_flags_judged", n_tsv)
        chk.count("gtf_flags_judged", n_gtf)
        chk.sample({"run": desc, "tsv_flags": n_tsv, "gtf_flags": n_gtf, "shared_intron_loci": len(shared)}, limit=3)
        if chk.violations and not getattr(chk, "witness_files", None):
            chk.witness_files = [os.path.join(d, f) for f in ("g.fa", "a.gtf", "r.bam", "r.bam.bai")]
        shutil.rmtree(out, ignore_errors=True)
    chk.extra.update({"queries_logged": queries, "introns_queried_on_both_strands_in_one_locus": both_strands})
    chk.assumptions = ["canonical pairs from the documentation: GT-AG, GC-AG, AT-AC on '+' and their reverse complements on '-'",
                       "records with strand '.': Canonical is judged as 'canonical with respect to one of the two strands' (the tree's rule since fix e001198)",
                       "a novel model's strand is a violation only when it contradicts every available kind of evidence"]
    chk.inconclusive_if(queries == 0, "canonical monitor never fired")
    chk.inconclusive_if(chk.extra.get("soft_masked_runs", 0) == 0, "no run on a soft-masked reference")
    chk.inconclusive_if(chk.extra.get("novel_models_with_mixed_introns", 0) == 0, "no novel model with mixed introns was produced")
    chk.inconclusive_if(chk.extra.get("novel_models_over_an_intron_annotated_on_both_strands", 0) == 0,
                        "no novel model over an intron annotated on both strands was produced")
    chk.inconclusive_if(chk.extra.get("novel_models_with_tied_splice_sites", 0) == 0, "no novel model with tied splice-site evidence was produced")
    chk.inconclusive_if(both_strands == 0, "no intron was queried on both strands within one locus")
    chk.min_nontrivial = 50
