"""C09 — grouped tables partition the ungrouped ones; matrix and linear formats agree.

Monitor: offline checker over *_grouped_counts.tsv, *_grouped_counts_linear.tsv, *_grouped_tpm.tsv and the ungrouped tables
of CLI runs, with the read->group truth of the generator and the per-read assignments of read_assignments.tsv; exit code.
Oracle: expected grouped cell = documented weights (vlib/oracles/weights.py) restricted to the group's reads.
"""
import os
import shutil
from collections import defaultdict
from fractions import Fraction

from vlib import runner, pipeline, world, world2, parse
from vlib.oracles import weights

LEVEL = "exploration"

GROUP_NAMES = ["zeta", "count_lo", "Beta", "10", "9", "g_1", "cellB", "cellA", "x", "NEU", "T-cell", "mono"]


def make_world(seed, mode, n_groups):
    w = world2.rich_world(seed, n_chroms=3, genes_per_chrom=3, reads_per_t=5, hidden_cov=4, multimappers=False, unmapped=2, zoo=world2.ZOO_ALL)
    rng = w.rng
    groups = GROUP_NAMES[:n_groups]
    truth = {}
    files = None
    longest = max(w.chrom_order, key=w.chrom_len)
    group_of_name = {}
    ungroupable_names = set()
    n_records = {}
    for r in w.reads:
        n_records[r.name] = n_records.get(r.name, 0) + 1
    for i, r in enumerate(w.reads):
        if r.flag & 4:
            continue
        g = groups[rng.randrange(n_groups)]
        if r.name in group_of_name:
            # all records of one read (multi-mapped reads of the zoo) carry one tag / sit in one file / have one table row
            g = group_of_name[r.name]
        # a group absent from some chromosome
        if r.chrom == "chr3" and g == groups[0]:
            g = groups[1 % n_groups]
        # ... and a group that occurs on the longest sequence (collected first) only
        if n_groups >= 3 and g == groups[-1] and r.chrom != longest:
            g = groups[1]
        group_of_name.setdefault(r.name, g)
        g = group_of_name[r.name]
        ungroupable = rng.random() < 0.06
        if r.name in ungroupable_names or (ungroupable and n_records[r.name] == 1):
            ungroupable_names.add(r.name)
            ungroupable = True
        else:
            ungroupable = False
        if mode == "tag":
            r.tags = [] if ungroupable else [("CB", g)]
            truth[r.name] = "NA" if ungroupable else g
        elif mode == "read_id":
            base = r.name
            r.name = base if ungroupable else "%s_%s" % (base, g)
            # group names containing the delimiter keep only the last piece (documented: split, take last)
            truth[r.name] = "NA" if ungroupable else g.split("_")[-1]
        elif mode == "file":
            truth[r.name] = "NA" if ungroupable else g
        elif mode == "file_name":
            r.file_idx = groups.index(g) % min(n_groups, 3)
            truth[r.name] = "lab%d" % r.file_idx
    # reads with records on several chromosomes: a supplementary (chimeric) record on chr1 for reads whose primary record is on
    # chr2 / chr3; the read's group is still the documented one
    from vlib.world import Read
    prim = [r for r in w.reads if not (r.flag & 4) and r.chrom in ("chr2", "chr3")]
    for r in rng.sample(prim, min(14, len(prim))):
        p0 = rng.randint(1600, 2400)
        w.reads.append(Read(r.name, "chr1", p0, [(5, 50), (0, 150)], w.seq_of("chr1", p0 + 1, p0 + 150), flag=2048 | (r.flag & 16), mapq=60,
                            tags=list(r.tags), truth=dict(r.truth, supplementary=True), file_idx=r.file_idx))
    return w, truth, groups


# (gene, transcript) quantification strategies of a job: the grouped tables of a level follow THAT level's strategy
STRAT_PAIRS = [("with_ambiguous", "with_ambiguous"), ("all", "unique_only"), ("unique_inconsistent", "with_ambiguous"), ("with_ambiguous", "all"),
               ("unique_only", "unique_inconsistent")]


def strategies_of(job):
    seed, mode, fmt, hs, threads, ng = job
    return STRAT_PAIRS[(seed + hs + ng) % len(STRAT_PAIRS)]


def run(chk, scratch):
    thorough = chk.tier == "thorough"
    chk.rule = ("worlds with 2-12 group names (chosen so that set iteration order differs from sorted order), ~6% ungroupable reads (missing tag / "
                "delimiter / table row), a group absent from one chromosome; modes tag, read_id, file, file_name x counts formats x PYTHONHASHSEED x "
                "threads; every (feature, group) cell compared with the documented weights restricted to the group; matrix vs linear triples; "
                "group sums vs ungrouped tables (gene, transcript, and with --count_exons exon and intron tables). non-trivial = distinct (mode, format, #groups, hash seed) with >= 3 groups")
    jobs = []
    modes = ["tag", "read_id", "file", "file_name"]
    if thorough:
        k = 0
        for si in range(3):
            for mode in modes:
                for fmt in ("both", "matrix", "linear"):
                    for hs in (0, 1, 7):
                        k += 1
                        jobs.append((chk.seed * 100 + si, mode, fmt, hs, 1 + (k % 3), (2, 5, 12, 7)[k % 4]))
    else:
        jobs = [(chk.seed * 100, "tag", "both", 0, 2, 6), (chk.seed * 100, "tag", "both", 3, 1, 6),
                (chk.seed * 100 + 1, "read_id", "both", 1, 3, 12), (chk.seed * 100 + 2, "file", "linear", 2, 2, 5),
                (chk.seed * 100 + 3, "file_name", "matrix", 5, 1, 3), (chk.seed * 100 + 4, "read_id", "both", 0, 1, 3),
                (chk.seed * 100 + 5, "file", "both", 9, 3, 9), (chk.seed * 100 + 6, "file_name", "both", 4, 2, 3)]

    def one(job):
        seed, mode, fmt, hs, threads, ng = job
        d = os.path.join(scratch, "w%d_%s_%s_%d" % (seed, mode, fmt, hs))
        w, truth, groups = make_world(seed, mode, ng)
        os.makedirs(d)
        w.write_fasta(os.path.join(d, "g.fa"))
        w.write_gtf(os.path.join(d, "a.gtf"))
        gs, ts = strategies_of(job)
        extra = ["--counts_format", fmt, "--gene_quantification", gs, "--transcript_quantification", ts, "--count_exons"]
        bams = None
        if mode == "file_name":
            nf = min(ng, 3)
            bams = []
            labels = []
            # odd hash seeds: no --labels, the documented default label is the file name without its extension; the names contain dots and two
            # of them agree up to the first dot
            default_names = ["LIB.rep1", "LIB.rep2", "OTHER"]
            for fi in range(nf):
                # even hash seeds: explicit labels, the files have the SAME base name in different folders (run0/reads.bam, run1/reads.bam, ...)
                if hs % 2 == 0:
                    os.makedirs(os.path.join(d, "run%d" % fi), exist_ok=True)
                p = os.path.join(d, ("%s.bam" % default_names[fi]) if hs % 2 == 1 else os.path.join("run%d" % fi, "reads.bam"))
                w.write_bam(p, file_idx=fi)
                bams.append(p)
                # YAML descriptions (hash seeds divisible by 4) give the labels as plain numbers: the label is the number as text
                labels.append("lab%d" % fi if hs % 4 else "%d" % (fi + 1))
            yaml_in = None
            if hs % 4 == 0:
                # labelled files given through a YAML description, listed in an order that is NOT the lexicographic order of their paths
                yaml_in = os.path.join(d, "exp.yaml")
                order_ = list(range(nf))[::-1]
                with open(yaml_in, "w") as f:
                    f.write('[\n  data format: "bam",\n  {\n    name: "%s",\n    long read files: [%s],\n    labels: [%s]\n  }\n]\n' %
                            (pipeline.PREFIX, ", ".join('"%s"' % bams[k_] for k_ in order_), ", ".join(labels[k_] for k_ in order_)))
                extra += ["--read_group", "file_name"]
                truth = {k_: ("%d" % (int(v_[3:]) + 1) if v_.startswith("lab") else v_) for k_, v_ in truth.items()}
            else:
                extra += ["--read_group", "file_name"] + ((["--labels"] + labels) if hs % 2 == 0 else [])
            if hs % 2 == 1:
                truth = {k_: (default_names[int(v_[3:])] if v_.startswith("lab") else v_) for k_, v_ in truth.items()}
        else:
            if mode == "tag" and hs % 2 == 1:
                # a lower-case tag (the SAM specification reserves lower-case codes for users; tag names are case sensitive)
                for r_ in w.reads:
                    r_.tags = [("xg" if k_ == "CB" else k_, v_) for k_, v_ in r_.tags]
            w.write_bam(os.path.join(d, "r.bam"))
            if mode == "tag":
                extra += ["--read_group", "tag:xg" if hs % 2 == 1 else "tag:CB"]
            elif mode == "read_id":
                extra += ["--read_group", "read_id:_"]
            else:
                # the table in one of three layouts: read<TAB>group (columns 0:1), group<TAB>read (1:0), read,barcode,group (0:2, comma)
                # fourth layout: barcode<TAB>group<TAB>read given as file:TABLE:2 (GROUP_COL left at its documented default 1)
                layout = 2 if hs == 2 else (3 if hs % 5 == 4 else (seed + hs) % 3)
                # the reference has a sequence that no BAM header lists (and no read, no gene): the table is split per BAM sequence
                with open(os.path.join(d, "g.fa"), "a") as f:
                    f.write(">chrUnlisted\n" + "ACGTTGCA" * 400 + "\n")
                tbl = os.path.join(d, "groups.tsv" if layout < 2 else "groups.csv")
                with open(tbl, "w") as f:
                    f.write(("#read\tgroup\n", "#group\tread\n", "#read,barcode,group\n", "#barcode\tgroup\tread\n")[layout])
                    for name, g in truth.items():
                        if g != "NA":
                            # the comma-separated layout has a blank after each comma: the group is the field as it stands, blank included
                            f.write(("%s\t%s\n" % (name, g), "%s\t%s\n" % (g, name), "%s, ACGT%d, %s\n" % (name, len(name), g),
                                     "ACGT%d\t%s\t%s\n" % (len(name), g, name))[layout])
                if layout == 2:
                    truth = {k_: (" " + v_ if v_ != "NA" else v_) for k_, v_ in truth.items()}
                extra += ["--read_group", ("file:%s:0:1" % tbl, "file:%s:1:0" % tbl, "file:%s:0:2:," % tbl, "file:%s:2" % tbl)[layout]]
        out = os.path.join(d, "out")
        if mode == "tag" and hs % 4 == 0:
            # integer-valued tag (e.g. HP:i:1 of haplotagged reads): the group is the value as text
            ints_ = {}
            for r_ in w.reads:
                r_.tags = [(k_, ints_.setdefault(v_, len(ints_) + 1)) if k_ == "CB" else (k_, v_) for k_, v_ in r_.tags]
            truth = {k_: (str(ints_[v_]) if v_ in ints_ else v_) for k_, v_ in truth.items()}
            w.write_bam(os.path.join(d, "r.bam"))
        if mode == "file" and hs == 2:
            # killed right after the first chromosome was marked as collected, resumed: the groups of a collected chromosome are read back from a file
            r1 = pipeline.run(d, out, threads=1, bam=bams, extra=extra, hashseed=str(hs), mon=["crash"],
                              cfg={"crash_root": out, "crash_path": "_collected", "crash_path_k": 1, "crash_after": True}, events=out + "_ev")
            if r1["rc"] == 137:
                r = runner.run_isoquant(["--resume", "-o", out], os.path.join(d, "home"), hashseed=str(hs))
                r["resumed"] = True
                return job, d, w, truth, out, r
            return job, d, w, truth, out, r1
        if mode == "file" and hs in (7, 9):
            # the run is killed while the read -> group table is being split per chromosome (right after the second file of that stage
            # was opened) and then resumed: the finished run must still count every read under the group of its table row
            r1 = pipeline.run(d, out, threads=threads, bam=bams, extra=extra, hashseed=str(hs), mon=["crash"],
                              cfg={"crash_root": out, "crash_path": ".read_group_", "crash_path_k": 2, "crash_after": True}, events=out + "_ev")
            if r1["rc"] == 137:
                r = runner.run_isoquant(["--resume", "-o", out], os.path.join(d, "home"), hashseed=str(hs))
                r["resumed"] = True
                return job, d, w, truth, out, r
            return job, d, w, truth, out, r1
        r = pipeline.run(d, out, threads=threads, bam=bams, extra=extra, hashseed=str(hs), **({"bam_list": yaml_in} if mode == "file_name" and yaml_in else {}))
        return job, d, w, truth, out, r
    cells = 0
    for job, d, w, truth, out, r in runner.parallel(one, jobs, workers=8):
        seed, mode, fmt, hs, threads, ng = job
        desc = "world=%d mode=%s format=%s hashseed=%d threads=%d groups=%d strategies=%s/%s%s" % ((seed, mode, fmt, hs, threads, ng) + strategies_of(job) + (" [killed while the group table was split, resumed]" if r.get("resumed") else "",))
        if r.get("resumed"):
            chk.count("killed_and_resumed_runs_judged")
        wit = {"world_seed": seed, "mode": mode, "format": fmt, "hashseed": hs, "threads": threads, "groups": ng}
        if r["rc"] is None:
            chk.inconclusive.append("watchdog expired: " + desc)
            continue
        if r["rc"] != 0:
            has_na = any(g == "NA" for g in truth.values())
            chk.violation("run-aborted:%s%s" % (mode, ":ungroupable-read" if has_na else ""),
                          "%s: exit %s: %s" % (desc, r["rc"], r["out"][-500:].replace("\n", " | ")), wit)
            continue
        o = pipeline.Outputs(out)
        recs = weights.group_records(o.assignments())
        expected_groups = sorted(set(truth[rc_["read"]] for rc_ in recs if rc_["read"] in truth) |
                                 set(truth.values()))
        for level, fname in (("gene", "gene"), ("transcript", "transcript")):
            table, per_read, stats = weights.expected_table(recs, level, strategies_of(job)[0 if level == "gene" else 1], group_of=lambda rid: truth.get(rid, "NA"))
            ungrouped = o.counts(fname + "_counts.tsv")
            matrix = None
            linear = None
            if fmt in ("both", "matrix"):
                groups_hdr, matrix = parse.read_matrix(o.path(fname + "_grouped_counts.tsv"))
                if sorted(groups_hdr) != groups_hdr:
                    chk.violation("matrix-header-unsorted", "%s: %s" % (desc, groups_hdr), wit)
                if set(groups_hdr) != set(expected_groups):
                    chk.violation("group-universe:" + mode, "%s: %s header has groups %s, documented grouping gives %s" %
                                  (desc, fname, groups_hdr, expected_groups), wit)
                for feat, row in matrix.items():
                    s = 0.0
                    for g, v in zip(groups_hdr, row):
                        cells += 1
                        chk.note()
                        e = float(table.get(feat, {}).get(g, Fraction(0)))
                        s += v
                        zero_row = all(x == 0 for x in row) and ungrouped.get(feat, 0.0) == 0.0
                        if abs(v - e) > 0.005 + 1e-9 and not zero_row:
                            chk.violation("grouped-cell-differs:%s:%s" % (mode, level),
                                          "%s: %s_grouped_counts %s/%s printed %.2f, the group's reads give %.4f" % (desc, fname, feat, g, v, e), wit)
                    if feat in ungrouped and abs(s - ungrouped[feat]) > 0.005 * (len(row) + 1) + 1e-9:
                        chk.violation("group-sum-differs:%s" % level, "%s: %s groups sum to %.2f, ungrouped count %.2f" %
                                      (desc, feat, s, ungrouped[feat]), wit)
            if fmt in ("both", "linear"):
                linear = parse.read_linear(o.path(fname + "_grouped_counts_linear.tsv"))
                seen = set()
                sums = defaultdict(float)
                for feat, g, v in linear:
                    cells += 1
                    chk.note()
                    if (feat, g) in seen:
                        chk.violation("linear-duplicate-triple", "%s: (%s,%s) twice in the linear table" % (desc, feat, g), wit)
                    seen.add((feat, g))
                    sums[feat] += v
                    e = float(table.get(feat, {}).get(g, Fraction(0)))
                    zero_row = v == 0 and ungrouped.get(feat, 0.0) == 0.0
                    if abs(v - e) > 0.005 + 1e-9 and not zero_row:
                        chk.violation("linear-cell-differs:%s:%s" % (mode, level),
                                      "%s: %s linear %s/%s printed %.2f, the group's reads give %.4f" % (desc, fname, feat, g, v, e), wit)
                for feat, s in sums.items():
                    if feat in ungrouped and abs(s - ungrouped[feat]) > 0.005 * 13 + 1e-9:
                        chk.violation("group-sum-differs:%s" % level, "%s: %s linear groups sum to %.2f, ungrouped %.2f" %
                                      (desc, feat, s, ungrouped[feat]), wit)
            if matrix is not None and linear is not None:
                lin = {(f, g): v for f, g, v in linear}
                for feat, row in matrix.items():
                    for g, v in zip(groups_hdr, row):
                        lv = lin.get((feat, g))
                        if lv is None:
                            if v != 0:
                                chk.violation("matrix-vs-linear:missing-triple", "%s: matrix has %s/%s = %.2f, the linear table has no such triple" %
                                              (desc, feat, g, v), wit)
                        elif abs(lv - v) > 1e-9:
                            chk.violation("matrix-vs-linear:value", "%s: %s/%s matrix %.2f, linear %.2f" % (desc, feat, g, v, lv), wit)
                for (feat, g), lv in lin.items():
                    if feat not in matrix and lv != 0:
                        chk.violation("matrix-vs-linear:extra-triple", "%s: linear has %s/%s = %.2f, matrix has no such row" % (desc, feat, g, lv), wit)
            # grouped TPM: per-group rescaling of the matrix
            if fmt in ("both", "matrix") and o.has(fname + "_grouped_tpm.tsv"):
                gh, tpm = parse.read_matrix(o.path(fname + "_grouped_tpm.tsv"))
                if gh != groups_hdr:
                    chk.violation("grouped-tpm-header", "%s: TPM header %s, counts header %s" % (desc, gh, groups_hdr), wit)
                else:
                    for j, g in enumerate(groups_hdr):
                        tot = sum(row[j] for row in matrix.values())
                        for feat, row in matrix.items():
                            if feat in tpm and tot > 0:
                                exp = row[j] * 1e6 / tot
                                if abs(tpm[feat][j] - exp) > 1e-3 + 1e-9 * exp:
                                    chk.violation("grouped-tpm-value", "%s: %s/%s TPM %.6f expected %.6f" % (desc, feat, g, tpm[feat][j], exp), wit)
        # transcript-model tables: a read listed for n models of transcript_model_reads.tsv counts 1/n for each of them, under ITS group
        if o.has("transcript_model_reads.tsv") and (parse.exists(o.path("transcript_model_grouped_counts.tsv")) or
                                                   parse.exists(o.path("transcript_model_grouped_counts_linear.tsv"))):
            models_of = defaultdict(set)
            for read, m in o.model_reads():
                if m != "*":
                    models_of[read].add(m)
            exp_m = defaultdict(lambda: defaultdict(Fraction))
            multi = 0
            for read, ms in models_of.items():
                g_ = truth.get(read, "NA")
                multi += len(ms) > 1
                for m in ms:
                    # a read listed for several models counts 1/k under a transcript strategy that admits ambiguous reads, otherwise nothing
                    exp_m[m][g_] += Fraction(1, len(ms)) if (len(ms) == 1 or weights.admits(strategies_of(job)[1])["ambiguous"]) else Fraction(0)
            chk.count("reads_listed_for_several_models", multi)
            triples = []
            if fmt in ("both", "matrix") and parse.exists(o.path("transcript_model_grouped_counts.tsv")):
                gh, mat = parse.read_matrix(o.path("transcript_model_grouped_counts.tsv"))
                triples += [(m, g_, v) for m, row in mat.items() for g_, v in zip(gh, row)]
            if fmt in ("both", "linear") and parse.exists(o.path("transcript_model_grouped_counts_linear.tsv")):
                triples += list(parse.read_linear(o.path("transcript_model_grouped_counts_linear.tsv")))
            for m, g_, v in triples:
                if m.startswith("__"):
                    continue
                cells += 1
                chk.note()
                e = float(exp_m.get(m, {}).get(g_, Fraction(0)))
                if abs(v - e) > 0.005 + 1e-9:
                    chk.violation("model-grouped-cell-differs:%s" % mode, "%s: transcript_model grouped counts %s/%s printed %.2f, the reads listed for the model in that group give %.4f" %
                                  (desc, m, g_, v, e), wit)
        # exon / intron tables: per-group rows partition the ungrouped rows; a group is only reported on chromosomes where it has reads
        groups_on_chr = defaultdict(set)
        for rc_ in recs:
            groups_on_chr[rc_["chr"]].add(truth.get(rc_["read"], "NA"))
        for kind in ("exon", "intron"):
            gp, up = o.path("%s_grouped_counts.tsv" % kind), o.path("%s_counts.tsv" % kind)
            if not (parse.exists(gp) and parse.exists(up)):
                chk.violation("feature-table-missing:" + kind, "%s: %s tables missing although --count_exons is set" % (desc, kind), wit)
                continue
            un = defaultdict(lambda: [0, 0])
            for row in parse.read_feature_counts(up):
                un[(row["chr"], row["start"], row["end"], row["strand"])][0] += row["inc"]
                un[(row["chr"], row["start"], row["end"], row["strand"])][1] += row["exc"]
            gs = defaultdict(lambda: [0, 0])
            for row in parse.read_feature_counts(gp):
                k = (row["chr"], row["start"], row["end"], row["strand"])
                gs[k][0] += row["inc"]
                gs[k][1] += row["exc"]
                cells += 1
                chk.note()
                if row["group"] not in groups_on_chr[row["chr"]] and (row["inc"] or row["exc"]):
                    chk.violation("feature-row-of-a-group-without-reads-there:" + kind, "%s: %s %s:%d-%d has a row for group %s (%d/%d), which has no read on %s" %
                                  (desc, kind, row["chr"], row["start"], row["end"], row["group"], row["inc"], row["exc"], row["chr"]), wit)
            for k in set(un) | set(gs):
                if un.get(k, [0, 0]) != gs.get(k, [0, 0]):
                    chk.violation("feature-group-sum-differs:" + kind, "%s: %s %s ungrouped include/exclude %s, groups sum to %s" %
                                  (desc, kind, k, un.get(k), gs.get(k)), wit)
        if ng >= 3:
            chk.nontrivial.add((mode, fmt, ng, hs))
        chk.sample({"run": desc, "groups_expected": expected_groups[:12], "reads_without_group": sum(1 for g in truth.values() if g == "NA")}, limit=4)
        if chk.violations and not getattr(chk, "witness_files", None):
            chk.witness_files = [os.path.join(d, f) for f in os.listdir(d) if f.endswith((".bam", ".bai", ".gtf", ".fa", ".tsv"))]
        shutil.rmtree(out, ignore_errors=True)
    # group names that begin with a blank (table "read, barcode, group" read with delimiter ","), one of them on the longest sequence only; the run
    # is killed right after that sequence was marked as collected and resumed: the groups of a collected sequence are read back from a file
    dws = os.path.join(scratch, "blank_groups")
    wws = world2.rich_world(chk.seed * 100 + 91, n_chroms=3, genes_per_chrom=2, reads_per_t=4, hidden_cov=3, multimappers=False, unmapped=0)
    longest_ = max(wws.chrom_order, key=wws.chrom_len)
    pipeline.write_world(wws, dws)
    truth_ws = {}
    with open(os.path.join(dws, "g.csv"), "w") as f:
        for i_, r_ in enumerate(wws.reads):
            if r_.name in truth_ws:
                continue
            truth_ws[r_.name] = " only" if (r_.chrom == longest_ and i_ % 2 == 0) else " G%d" % (i_ % 2)
            f.write("%s, x,%s\n" % (r_.name, truth_ws[r_.name]))
    ows = os.path.join(dws, "out")
    ews = ["--read_group", "file:%s:0:2:," % os.path.join(dws, "g.csv"), "--no_model_construction"]
    r1 = pipeline.run(dws, ows, threads=1, extra=ews, mon=["crash"], cfg={"crash_root": ows, "crash_path": "_collected", "crash_path_k": 1, "crash_after": True}, events=ows + "_ev")
    if r1["rc"] != 137:
        chk.inconclusive.append("the run with blank-prefixed group names was not killed (exit %s)" % r1["rc"])
    else:
        r2 = runner.run_isoquant(["--resume", "-o", ows], os.path.join(dws, "home"))
        chk.note()
        chk.count("killed_and_resumed_runs_judged")
        if r2["rc"] is None:
            chk.inconclusive.append("watchdog expired in the resumed run with blank-prefixed group names")
        elif r2["rc"] != 0:
            chk.violation("resumed-run-failed:group-names-with-blanks", "groups ' only' (longest sequence only), ' G0', ' G1'; killed after the first sequence was collected; "
                          "--resume: %s" % pipeline.fail_text(r2), {"world_seed": chk.seed * 100 + 91})
        else:
            hdr_, matrix_ = parse.read_matrix(os.path.join(ows, pipeline.PREFIX, pipeline.PREFIX + ".gene_grouped_counts.tsv"))
            want_ = sorted(set(truth_ws.values()))
            if sorted(hdr_) != want_:
                chk.violation("group-universe:resumed:group-names-with-blanks", "resumed run has the groups %s, the table names %s" % (sorted(hdr_), want_),
                              {"world_seed": chk.seed * 100 + 91})
    # two experiments in ONE invocation (tag mode, ungroupable reads in both, -t 1 and -t 2): the second experiment sees the same reads as the
    # first one and must produce the same grouped tables, with the NA column
    for threads in ((1, 2) if thorough else (1,)):
        d = os.path.join(scratch, "two_exp_t%d" % threads)
        w, truth, groups = make_world(chk.seed * 100 + 77, "tag", 5)
        os.makedirs(d)
        w.write_fasta(os.path.join(d, "g.fa"))
        w.write_gtf(os.path.join(d, "a.gtf"))
        w.write_bam(os.path.join(d, "r.bam"))
        shutil.copy(os.path.join(d, "r.bam"), os.path.join(d, "r2.bam"))
        shutil.copy(os.path.join(d, "r.bam.bai"), os.path.join(d, "r2.bam.bai"))
        with open(os.path.join(d, "exp.yaml"), "w") as f:
            f.write('[\n  data format: "bam",\n  {\n    name: "EXA",\n    long read files: ["%s"],\n    labels: ["a"]\n  },\n'
                    '  {\n    name: "EXB",\n    long read files: ["%s"],\n    labels: ["b"]\n  }\n]\n' % (os.path.join(d, "r.bam"), os.path.join(d, "r2.bam")))
        out = os.path.join(d, "out")
        r = runner.run_isoquant(["-o", out, "--yaml", os.path.join(d, "exp.yaml"), "-d", "nanopore", "-r", os.path.join(d, "g.fa"), "-g", os.path.join(d, "a.gtf"),
                                 "--complete_genedb", "-t", str(threads), "--no_gzip", "--force", "--read_group", "tag:CB", "--no_model_construction"],
                                os.path.join(d, "home"))
        desc = "two experiments in one invocation, tag mode, threads=%d" % threads
        wit = {"scenario": "two-experiments", "threads": threads}
        chk.note()
        if r["rc"] is None:
            chk.inconclusive.append("watchdog expired: " + desc)
        elif r["rc"] != 0:
            chk.violation("run-aborted:tag:ungroupable-read:later-experiment", "%s: exit %s: %s" % (desc, r["rc"], r["out"][-500:].replace("\n", " | ")), wit)
        else:
            for kind in ("gene_grouped_counts.tsv", "transcript_grouped_counts.tsv", "gene_grouped_tpm.tsv"):
                pa, pb = os.path.join(out, "EXA", "EXA." + kind), os.path.join(out, "EXB", "EXB." + kind)
                if not (os.path.exists(pa) and os.path.exists(pb)):
                    chk.violation("grouped-table-missing:later-experiment", "%s: %s missing for one of the experiments" % (desc, kind), wit)
                elif runner.normalized(pa) != runner.normalized(pb):
                    chk.violation("grouped-table-differs-between-identical-experiments:" + kind, "%s: %s of EXA and EXB differ although both experiments hold the same reads" % (desc, kind), wit)
                else:
                    cells += 1
            chk.count("two_experiment_runs")
        shutil.rmtree(d, ignore_errors=True)
    chk.extra["cells_checked"] = cells
    chk.assumptions = ["documented grouping: tag value / last piece of the read id split by the delimiter / table entry / file label; NA when none",
                       "weights as in C02 (the gene and the transcript strategy differ in most jobs); worlds without multi-mapped reads"]
    chk.inconclusive_if(cells == 0, "no grouped cell checked")
    chk.min_nontrivial = 3
