"""Run IsoQuant (through launch.py) as a subprocess with private HOME, fixed hash seed, watchdog."""
import glob
import gzip
import json
import os
import shutil
import subprocess
import sys
import tempfile
import time
from concurrent.futures import ThreadPoolExecutor

VERIF = os.path.dirname(os.path.dirname(os.path.abspath(__file__)))
REPO = os.environ.get("VERIF_REPO", "/repo")
PY = "/venv/bin/python"
LAUNCH = os.path.join(VERIF, "vlib", "launch.py")


class Inconclusive(Exception):
    pass


def make_scratch(tag="vq"):
    base = os.environ.get("VERIF_SCRATCH_BASE") or tempfile.gettempdir()
    return tempfile.mkdtemp(prefix="verif_%s_" % tag, dir=base)


def run_isoquant(args, home, mon=None, cfg=None, hashseed="0", timeout=600, events=None, env_extra=None,
                 cwd=None, new_session=False):
    """Returns dict(rc, out, wall). rc None on watchdog expiry."""
    env = dict(os.environ)
    env["HOME"] = home
    env["PYTHONHASHSEED"] = str(hashseed)
    env["VERIF_REPO"] = REPO
    env["PYTHONDONTWRITEBYTECODE"] = "1"
    env.pop("VERIF_MON", None)
    env.pop("VERIF_MON_CFG", None)
    env.pop("VERIF_EVENTS", None)
    if mon:
        env["ABLAB_ISOQUANT_VERIF"] = "1"
        env["VERIF_MON"] = ",".join(mon)
        env["VERIF_MON_CFG"] = json.dumps(cfg or {})
        if events:
            os.makedirs(events, exist_ok=True)
            env["VERIF_EVENTS"] = events
    else:
        env.pop("ABLAB_ISOQUANT_VERIF", None)
    if env_extra:
        env.update(env_extra)
    os.makedirs(home, exist_ok=True)
    t0 = time.time()
    try:
        p = subprocess.run([PY, LAUNCH] + [str(a) for a in args], env=env, stdout=subprocess.PIPE,
                           stderr=subprocess.STDOUT, timeout=timeout, cwd=cwd or home,
                           start_new_session=new_session)
        rc, out = p.returncode, p.stdout.decode(errors="replace")
    except subprocess.TimeoutExpired as e:
        rc, out = None, (e.stdout or b"").decode(errors="replace")
    return {"rc": rc, "out": out, "wall": time.time() - t0}


def load_events(evdir):
    evs = []
    for fn in sorted(glob.glob(os.path.join(glob.escape(evdir), "*.jsonl"))):
        with open(fn) as f:
            for line in f:
                line = line.strip()
                if not line:
                    continue
                try:
                    evs.append(json.loads(line))
                except ValueError:
                    pass   # a line cut by an injected kill
    evs.sort(key=lambda e: e.get("t", 0))
    return evs


def parallel(fn, items, workers=None):
    workers = workers or min(16, max(1, len(items)))
    with ThreadPoolExecutor(max_workers=workers) as ex:
        return list(ex.map(fn, items))


# ----------------------------------------------------------------------------- output tree comparison

def read_maybe_gz(path):
    with open(path, "rb") as f:
        data = f.read()
    if path.endswith(".gz") or data[:2] == b"\x1f\x8b":
        try:
            data = gzip.decompress(data)
        except Exception:
            pass
    return data


def normalized(path):
    """File content with command-line header lines removed (they legitimately differ between runs)."""
    data = read_maybe_gz(path)
    lines = data.split(b"\n")
    keep = [l for l in lines if not (l.startswith(b"# Command line") or l.startswith(b"Command line"))]
    return b"\n".join(keep)


def tree_files(root, exclude=("isoquant.log", "isoquant.log.old", ".params")):
    res = {}
    for dp, dn, fn in os.walk(root):
        for f in fn:
            p = os.path.join(dp, f)
            rel = os.path.relpath(p, root)
            if f in exclude or rel in exclude:
                continue
            res[rel] = p
    return res


def compare_trees(a, b, exclude=("isoquant.log", "isoquant.log.old", ".params"), ignore_suffixes=(".db", ".fai", ".bai")):
    """Returns list of (relpath, reason). gz compared decompressed; header lines ignored."""
    fa, fb = tree_files(a, exclude), tree_files(b, exclude)
    diffs = []
    for rel in sorted(set(fa) | set(fb)):
        if rel.endswith(ignore_suffixes):
            continue
        if rel not in fa:
            diffs.append((rel, "missing in first"))
        elif rel not in fb:
            diffs.append((rel, "missing in second"))
        else:
            if normalized(fa[rel]) != normalized(fb[rel]):
                diffs.append((rel, "content differs"))
    return diffs
