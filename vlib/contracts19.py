"""icontract post-conditions (set-of-positions oracles) for the interval / profile primitives of src/common.py,
GeneInfo.split_exons, FeatureProfiles.set_profiles and the two read-profile constructors.

install() wraps the real functions in their defining modules; it must run before modules that do
`from .common import f` are imported.  Violations are recorded (and raised as PostBroken so that the
driver can attribute them); evaluation counters per function are kept in COUNTS.
"""
import os
import sys
from fractions import Fraction

from vlib import repo_import

COUNTS = {}
VIOLATIONS = []     # (function, args repr, result repr)
_INSTALLED = False


class PostBroken(Exception):
    pass


def S(r):
    return set(range(r[0], r[1] + 1))


def U(lst):
    s = set()
    for r in lst:
        s.update(range(r[0], r[1] + 1))
    return s


def runs(positions):
    """maximal runs of consecutive integers -> list of closed intervals"""
    res = []
    for p in sorted(positions):
        if res and res[-1][1] == p - 1:
            res[-1][1] = p
        else:
            res.append([p, p])
    return [tuple(x) for x in res]


def pre_ok(lst):
    """sorted, pairwise disjoint, well-formed integer intervals"""
    try:
        return all(isinstance(r[0], int) and isinstance(r[1], int) and r[0] <= r[1] for r in lst) and \
            all(lst[i][1] < lst[i + 1][0] for i in range(len(lst) - 1))
    except Exception:
        return False


def _skip(name):
    COUNTS[name + ":precondition-unmet"] = COUNTS.get(name + ":precondition-unmet", 0) + 1
    return True


def _rec(name, ok, args, result):
    COUNTS[name] = COUNTS.get(name, 0) + 1
    if not ok:
        VIOLATIONS.append((name, repr(args)[:400], repr(result)[:300]))
    return ok


# ---- pair predicates
def post_overlaps(range1, range2, result):
    if not (pre_ok([range1]) and pre_ok([range2])):
        return _skip('overlaps')
    return _rec("overlaps", result == bool(S(range1) & S(range2)), (range1, range2), result)


def post_contains(bigger_range, smaller_range, result):
    if not (pre_ok([bigger_range]) and pre_ok([smaller_range])):
        return _skip('contains')
    return _rec("contains", result == (S(smaller_range) <= S(bigger_range)), (bigger_range, smaller_range), result)


def post_intersection_len(range1, range2, result):
    if not (pre_ok([range1]) and pre_ok([range2])):
        return _skip('intersection_len')
    return _rec("intersection_len", result == len(S(range1) & S(range2)), (range1, range2), result)


def post_overlap_intervals(range1, range2, result):
    if not (pre_ok([range1]) and pre_ok([range2])):
        return _skip('overlap_intervals')
    inter = S(range1) & S(range2)
    ok = True
    if inter:
        ok = tuple(result) == (min(inter), max(inter))
    return _rec("overlap_intervals", ok, (range1, range2), result)


def post_left_of(range1, range2, result):
    if not (pre_ok([range1]) and pre_ok([range2])):
        return _skip('left_of')
    return _rec("left_of", result == (max(S(range1)) < min(S(range2))), (range1, range2), result)


def post_equal_ranges(range1, range2, delta, result):
    exp = abs(range1[0] - range2[0]) <= delta and abs(range1[1] - range2[1]) <= delta
    return _rec("equal_ranges", result == exp, (range1, range2, delta), result)


def post_contains_approx(bigger_range, smaller_range, delta, result):
    big = (bigger_range[0] - delta, bigger_range[1] + delta)
    return _rec("contains_approx", result == (S(smaller_range) <= S(big)), (bigger_range, smaller_range, delta), result)


def post_contains_well_inside(bigger_range, smaller_range, delta, result):
    small = (smaller_range[0] - delta, smaller_range[1] + delta)
    return _rec("contains_well_inside", result == (S(small) <= S(bigger_range)), (bigger_range, smaller_range, delta), result)


def post_overlaps_at_least(range1, range2, delta, result):
    a, b = S(range1), S(range2)
    inter = a & b
    exp = bool(inter) and (len(inter) >= delta or a <= b or b <= a)
    return _rec("overlaps_at_least", result == exp, (range1, range2, delta), result)


def post_max_range(range1, range2, result):
    if not (pre_ok([range1]) and pre_ok([range2])):
        return _skip('max_range')
    u = S(range1) | S(range2)
    return _rec("max_range", tuple(result) == (min(u), max(u)), (range1, range2), result)


def post_interval_len(interval, result):
    return _rec("interval_len", result == len(S(interval)), (interval,), result)


# ---- list functions (precondition: sorted, pairwise disjoint)
def post_intervals_total_length(sorted_range_list, result):
    if not (pre_ok(sorted_range_list)):
        return _skip('intervals_total_length')
    return _rec("intervals_total_length", result == len(U(sorted_range_list)), (sorted_range_list,), result)


def post_sum_to_point(sorted_range_list, pos, result):
    if not (pre_ok(sorted_range_list) and sorted_range_list):
        return _skip('sum_intervals_to_point')
    return _rec("sum_intervals_to_point", result == len([p for p in U(sorted_range_list) if p < pos]),
                (sorted_range_list, pos), result)


def post_sum_from_point(sorted_range_list, pos, result):
    if not (pre_ok(sorted_range_list) and sorted_range_list):
        return _skip('sum_intervals_from_point')
    return _rec("sum_intervals_from_point", result == len([p for p in U(sorted_range_list) if p > pos]),
                (sorted_range_list, pos), result)


def post_jaccard(sorted_range_list1, sorted_range_list2, result):
    if not (pre_ok(sorted_range_list1) and pre_ok(sorted_range_list2)):
        return _skip('jaccard_similarity')
    a, b = U(sorted_range_list1), U(sorted_range_list2)
    exp = Fraction(len(a & b), len(a | b))
    return _rec("jaccard_similarity", abs(result - float(exp)) < 1e-12, (sorted_range_list1, sorted_range_list2), result)


def post_merge_ranges(sorted_range_list1, sorted_range_list2, result):
    if not (pre_ok(sorted_range_list1) and pre_ok(sorted_range_list2)):
        return _skip('merge_ranges')
    a, b = U(sorted_range_list1), U(sorted_range_list2)
    ok = U(result) == (a | b) and all(result[i][1] < result[i + 1][0] for i in range(len(result) - 1)) \
        and all(r[0] <= r[1] for r in result)
    return _rec("merge_ranges", ok, (sorted_range_list1, sorted_range_list2), result)


def post_read_coverage_fraction(read_range_list, isoform_range_list, result):
    if not (pre_ok(read_range_list) and pre_ok(isoform_range_list) and read_range_list):
        return _skip('read_coverage_fraction')
    a, b = U(read_range_list), U(isoform_range_list)
    return _rec("read_coverage_fraction", abs(result - len(a & b) / len(a)) < 1e-12,
                (read_range_list, isoform_range_list), result)


def post_extra_exon_percentage(isoform_region, read_exons, result):
    if not (pre_ok(read_exons) and read_exons):
        return _skip('extra_exon_percentage')
    a = U(read_exons)
    return _rec("extra_exon_percentage", abs(result - len(a - S(isoform_region)) / len(a)) < 1e-12,
                (isoform_region, read_exons), result)


def post_junctions_from_blocks(sorted_blocks, result):
    if not (pre_ok(sorted_blocks)):
        return _skip('junctions_from_blocks')
    exp = []
    if sorted_blocks:
        span = set(range(sorted_blocks[0][0], sorted_blocks[-1][1] + 1))
        exp = runs(span - U(sorted_blocks))
    return _rec("junctions_from_blocks", [tuple(x) for x in result] == exp, (sorted_blocks,), result)


def post_get_exons(read_region, read_introns, result):
    if not (pre_ok(read_introns) and all(read_region[0] <= r[0] and r[1] <= read_region[1] for r in read_introns)):
        return _skip('get_exons')
    exp = runs(S(read_region) - U(read_introns))
    return _rec("get_exons", [tuple(x) for x in result] == exp, (read_region, read_introns), result)


def post_bin_search(ordered_intervals, pos, result):
    if not (pre_ok(ordered_intervals) and ordered_intervals):
        return _skip('interval_bin_search')
    if pos < ordered_intervals[0][0] or pos > ordered_intervals[-1][1]:
        exp = -1
    else:
        exp = max(i for i, r in enumerate(ordered_intervals) if r[0] <= pos)
    return _rec("interval_bin_search", result == exp, (ordered_intervals, pos), result)


def post_bin_search_rev(ordered_intervals, pos, result):
    if not (pre_ok(ordered_intervals) and ordered_intervals):
        return _skip('interval_bin_search_rev')
    if pos < ordered_intervals[0][0] or pos > ordered_intervals[-1][1]:
        exp = -1
    else:
        exp = min(i for i, r in enumerate(ordered_intervals) if r[1] >= pos)
    return _rec("interval_bin_search_rev", result == exp, (ordered_intervals, pos), result)


def post_truncate(read_exons, polya_pos, polyt_pos, result):
    if not (pre_ok(read_exons) and read_exons and (polya_pos == -1 or polya_pos in U(read_exons)) and (polyt_pos == -1 or polyt_pos in U(read_exons)) and (polya_pos == -1 or polyt_pos == -1 or polyt_pos <= polya_pos)):
        return _skip('truncate_read_to_polya')
    # domain of the oracle: positions inside the read's exons (or -1)
    pos = U(read_exons)
    lo = polyt_pos if polyt_pos != -1 else min(pos)
    hi = polya_pos if polya_pos != -1 else max(pos)
    exp = runs(p for p in pos if lo <= p <= hi)
    # runs() would merge touching exons; compare as sets + boundaries
    ok = U(result) == set(p for p in pos if lo <= p <= hi)
    return _rec("truncate_read_to_polya", ok, (read_exons, polya_pos, polyt_pos), result)


# ---- split_exons
def expected_split(exons):
    pos = sorted(U(exons))
    sig = {}
    for p in pos:
        sig[p] = frozenset(i for i, e in enumerate(exons) if e[0] <= p <= e[1])
    res = []
    for p in pos:
        if res and res[-1][1] == p - 1 and sig[p] == sig[p - 1]:
            res[-1][1] = p
        else:
            res.append([p, p])
    return [tuple(x) for x in res]


def post_split_exons(exons, result):
    if not (all(isinstance(e[0], int) and e[0] <= e[1] for e in exons) and list(exons) == sorted(set(map(tuple, exons)))):
        return _skip('split_exons')
    return _rec("split_exons", [tuple(x) for x in result] == expected_split(exons), (exons,), result)


# ---- FeatureProfiles.set_profiles (checked after the call, on self)
def check_set_profiles(fp, transcript_id, transcript_features, transcript_region, mode):
    prof = fp.profiles[transcript_id]
    exp = []
    for f in fp.features:
        if mode == "equal":
            present = tuple(f) in set(map(tuple, transcript_features))
        else:   # split blocks: contained in one of the transcript's exons
            present = any(e[0] <= f[0] and f[1] <= e[1] for e in transcript_features)
        if present:
            exp.append(1)
        elif not (S(f) & S(transcript_region)):
            exp.append(-2)
        else:
            exp.append(-1)
    ok = prof == exp
    ones = [i for i, v in enumerate(exp) if v == 1]
    exp_range = (ones[0], ones[-1] + 1) if ones else (len(exp), 0)
    ok = ok and tuple(fp.profile_ranges[transcript_id]) == exp_range
    return _rec("FeatureProfiles.set_profiles", ok, (fp.features, transcript_features, transcript_region, mode),
                (prof, fp.profile_ranges[transcript_id]))


# ---- read profiles
def expected_overlapping_profile(known, read_features, mapped_region, delta):
    """gene profile for OverlappingFeaturesProfileConstructor with comparator equal_ranges(delta) and absence=contains.
    When several known features are within delta of one read feature, the one(s) that are no further from it than any rival at BOTH
    ends must be present; for a strictly worse one the entry is left open (None).
    Precondition (checked by caller): no known feature is within delta of two read features."""
    prof = []
    for f in known:
        rs = [r for r in read_features if abs(f[0] - r[0]) <= delta and abs(f[1] - r[1]) <= delta]
        if rs:
            r = rs[0]
            rivals = [g for g in known if g != f and abs(g[0] - r[0]) <= delta and abs(g[1] - r[1]) <= delta]
            best = all(abs(f[0] - r[0]) <= abs(g[0] - r[0]) and abs(f[1] - r[1]) <= abs(g[1] - r[1]) for g in rivals)
            prof.append(1 if best else None)
        elif mapped_region[0] <= f[0] and f[1] <= mapped_region[1]:
            prof.append(-1)
        else:
            prof.append(0)
    return prof


def profile_agrees(got, exp):
    return len(got) == len(exp) and all(e is None or g == e for g, e in zip(got, exp))


def expected_nonoverlapping_profile(known, blocks):
    prof = []
    for f in known:
        if any(S(f) & S(b) for b in blocks):
            prof.append(1)
        elif any(blocks[i][1] < f[0] and f[1] < blocks[i + 1][0] for i in range(len(blocks) - 1)):
            prof.append(-1)
        else:
            prof.append(0)
    return prof


def install():
    """Wrap the real functions with icontract post-conditions (idempotent)."""
    global _INSTALLED
    if _INSTALLED:
        return
    repo_import.setup_path()
    import icontract
    common = repo_import.mod("src.common")

    def ens(name, post):
        f = getattr(common, name)
        setattr(common, name, icontract.ensure(post, error=PostBroken)(f))
    ens("overlaps", post_overlaps)
    ens("contains", post_contains)
    ens("intersection_len", post_intersection_len)
    ens("overlap_intervals", post_overlap_intervals)
    ens("left_of", post_left_of)
    ens("equal_ranges", post_equal_ranges)
    ens("contains_approx", post_contains_approx)
    ens("contains_well_inside", post_contains_well_inside)
    ens("overlaps_at_least", post_overlaps_at_least)
    ens("max_range", post_max_range)
    ens("interval_len", post_interval_len)
    ens("intervals_total_length", post_intervals_total_length)
    ens("sum_intervals_to_point", post_sum_to_point)
    ens("sum_intervals_from_point", post_sum_from_point)
    ens("jaccard_similarity", post_jaccard)
    ens("merge_ranges", post_merge_ranges)
    ens("read_coverage_fraction", post_read_coverage_fraction)
    ens("extra_exon_percentage", post_extra_exon_percentage)
    ens("junctions_from_blocks", post_junctions_from_blocks)
    ens("get_exons", post_get_exons)
    ens("interval_bin_search", post_bin_search)
    ens("interval_bin_search_rev", post_bin_search_rev)
    ens("truncate_read_to_polya", post_truncate)
    gi = repo_import.mod("src.gene_info")
    gi.GeneInfo.split_exons = staticmethod(icontract.ensure(post_split_exons, error=PostBroken)(gi.GeneInfo.split_exons))
    _INSTALLED = True
