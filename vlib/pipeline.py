"""Helpers shared by the pipeline-level checks: write a world to disk, run IsoQuant on it, locate outputs."""
import os
import shutil

from vlib import runner, parse

PREFIX = "SMP"   # a prefix that does not occur in any output file suffix (merge_files replaces the LAST occurrence)


def write_world(w, d, gtf_gz=False, with_meta=True, **gtf_kw):
    os.makedirs(d, exist_ok=True)
    w.write_fasta(os.path.join(d, "g.fa"))
    w.write_gtf(os.path.join(d, "a.gtf"), with_meta=with_meta, **gtf_kw)
    w.write_bam(os.path.join(d, "r.bam"))
    w.write_truth(os.path.join(d, "truth.json"))
    return d


def std_args(d, out, data_type="nanopore", threads=2, annotated=True, prefix=PREFIX, bam=None, complete=True, extra=(), bam_list=None):
    a = ["-o", out, "-d", data_type, "-r", os.path.join(d, "g.fa"), "-t", str(threads), "-p", prefix, "--no_gzip", "--force"]
    if bam_list:
        # several experiments in one run; outputs in <out>/<experiment name>/ (a .yaml / .yml path is passed with --yaml)
        a += ["--yaml" if bam_list.endswith((".yaml", ".yml")) else "--bam_list", bam_list]
    else:
        a += ["--bam"] + (bam if bam else [os.path.join(d, "r.bam")])
    if annotated:
        a += ["-g", os.path.join(d, "a.gtf")]
        if complete:
            a += ["--complete_genedb"]
    a += list(extra)
    return a


class Outputs:
    def __init__(self, out, prefix=PREFIX):
        self.out = out
        self.prefix = prefix
        self.dir = os.path.join(out, prefix)

    def path(self, suffix):
        return os.path.join(self.dir, "%s.%s" % (self.prefix, suffix))

    def has(self, suffix):
        return parse.exists(self.path(suffix))

    def assignments(self):
        return parse.read_assignments(self.path("read_assignments.tsv"))

    def bed(self):
        return parse.read_bed(self.path("corrected_reads.bed"))

    def models(self):
        return parse.GtfModel(self.path("transcript_models.gtf"))

    def extended(self):
        return parse.GtfModel(self.path("extended_annotation.gtf"))

    def counts(self, what):
        return parse.read_counts(self.path(what))[0]

    def model_reads(self):
        return parse.read_model_reads(self.path("transcript_model_reads.tsv"))

    def log(self):
        p = os.path.join(self.out, "isoquant.log")
        return open(p).read() if os.path.exists(p) else ""


def run(d, out, home=None, mon=None, cfg=None, events=None, hashseed="0", timeout=600, **kw):
    home = home or os.path.join(d, "home")
    return runner.run_isoquant(std_args(d, out, **kw), home, mon=mon, cfg=cfg, events=events, hashseed=hashseed, timeout=timeout)


def write_experiments(w, d, names, reads_of, fname="exps.list"):
    """Splits the reads of world w into one BAM per experiment (reads_of(i, read) -> bool) and writes a --bam_list file with a
    #name block per experiment.  Returns (list path, {name: reads})."""
    per = {}
    with open(os.path.join(d, fname), "w") as f:
        for i, name in enumerate(names):
            rs = [r for k, r in enumerate(w.reads) if reads_of(i, k, r)]
            per[name] = rs
            bp = os.path.join(d, "exp_%s.bam" % name)
            w.write_bam(bp, reads=rs)
            f.write("#%s\n%s\n" % (name, bp))
    return os.path.join(d, fname), per


def fail_text(r, n=600):
    return "exit %s: %s" % (r["rc"], r["out"][-n:])
