"""Coordinate translation and strand reflection of whole worlds, and of parsed outputs."""
import copy
import re

from vlib.world import World, Gene, Transcript, Read, revcomp, scrub, random_seq

COORD_EVENTS = ("correct_polya_site", "alternative_polya_site", "internal_polya", "alternative_tss")
LR_RAW = re.compile(r"_(left|right)$")


def shifted(w, k, seed=12345):
    """Insert k bases at the start of every chromosome; annotation and alignments move by k."""
    import random
    v = World(w.seed)
    rng = random.Random(seed)
    v.chrom_order = list(w.chrom_order)
    for c in w.chrom_order:
        v.chroms[c] = scrub(random_seq(rng, k), rng) + list(w.chroms[c])
    for g in w.genes:
        ng = Gene(g.id, g.chrom, g.strand)
        ng.site_class = g.site_class
        for t in g.transcripts:
            ng.transcripts.append(Transcript(t.id, t.gene_id, t.chrom, t.strand, [(s + k, e + k) for s, e in t.exons], True, t.kind))
        for t in g.hidden:
            ng.hidden.append(Transcript(t.id, t.gene_id, t.chrom, t.strand, [(s + k, e + k) for s, e in t.exons], False, t.kind))
        v.genes.append(ng)
    for r in w.reads:
        v.reads.append(Read(r.name, r.chrom, r.pos0 + k if not (r.flag & 4) else r.pos0, list(r.cigar), r.seq, r.flag, r.mapq, list(r.tags),
                            dict(r.truth), r.file_idx))
    return v


def reflected(w):
    """Reverse-complement every chromosome; mirror annotation (strands flipped) and alignments (CIGAR reversed, SEQ
    reverse-complemented, flag 0x10 toggled)."""
    v = World(w.seed)
    v.chrom_order = list(w.chrom_order)
    L = {}
    for c in w.chrom_order:
        L[c] = len(w.chroms[c])
        v.chroms[c] = list(revcomp("".join(w.chroms[c])))

    def mex(chrom, exons):
        return sorted((L[chrom] + 1 - e, L[chrom] + 1 - s) for s, e in exons)
    flip = {"+": "-", "-": "+", ".": "."}
    for g in w.genes:
        ng = Gene(g.id, g.chrom, flip[g.strand])
        ng.site_class = g.site_class
        for t in g.transcripts:
            ng.transcripts.append(Transcript(t.id, t.gene_id, t.chrom, flip[t.strand], mex(t.chrom, t.exons), True, t.kind))
        for t in g.hidden:
            ng.hidden.append(Transcript(t.id, t.gene_id, t.chrom, flip[t.strand], mex(t.chrom, t.exons), False, t.kind))
        v.genes.append(ng)
    for r in w.reads:
        if r.flag & 4:
            v.reads.append(Read(r.name, r.chrom, r.pos0, list(r.cigar), r.seq, r.flag, r.mapq, list(r.tags), dict(r.truth), r.file_idx))
            continue
        ref_end0 = r.ref_end0          # exclusive, 0-based
        new_pos0 = L[r.chrom] - ref_end0
        v.reads.append(Read(r.name, r.chrom, new_pos0, list(reversed(r.cigar)), revcomp(r.seq), r.flag ^ 16, r.mapq, list(r.tags),
                            dict(r.truth), r.file_idx))
    return v, L


# --------------------------------------------------------------------------- transforming parsed outputs

def split_events(s):
    """'fsm,tss_match:0+x:1-2' -> list (per isoform line this column holds one list joined by ',')"""
    if s in (".", ""):
        return []
    out = []
    for tok in s.split(","):
        if out and re.fullmatch(r"-?\d+-\d+", tok):
            out[-1] += "," + tok        # a further region of the previous event
        else:
            out.append(tok)
    return out


def parse_event(e):
    if ":" not in e:
        return e, None
    name, payload = e.split(":", 1)
    if re.fullmatch(r"-?\d+", payload):
        return name, int(payload)
    regs = []
    for part in payload.split(","):
        m = re.fullmatch(r"(-?\d+)-(-?\d+)", part)
        if not m:
            return name, payload
        regs.append((int(m.group(1)), int(m.group(2))))
    return name, regs


def shift_event(e, k):
    name, p = parse_event(e)
    if p is None:
        return e
    if isinstance(p, int):
        if name.startswith(COORD_EVENTS):
            return "%s:%d" % (name, p + k)
        return e
    if isinstance(p, list):
        return "%s:%s" % (name, ",".join("%d-%d" % (a + k, b + k) for a, b in p))
    return e


def reflect_event(e, Lc):
    name, p = parse_event(e)
    m = LR_RAW.search(name)
    if m:
        name = name[:m.start()] + ("_right" if m.group(1) == "left" else "_left")
    if p is None:
        return name
    if isinstance(p, int):
        if name.startswith(COORD_EVENTS):
            return "%s:%d" % (name, Lc + 1 - p)
        return "%s:%d" % (name, p)
    if isinstance(p, list):
        regs = sorted((Lc + 1 - b, Lc + 1 - a) for a, b in p)
        return "%s:%s" % (name, ",".join("%d-%d" % r for r in regs))
    return "%s:%s" % (name, p)
