"""Verdict plumbing: violations, known findings, evidence files, exit codes."""
import json
import os
import re
import shutil
import sys
import time

VERIF = os.path.dirname(os.path.dirname(os.path.abspath(__file__)))


def load_known():
    """known_findings.txt: lines `known: property=<id> key=<mechanism key> <text>` / `fixed: property=<id> <commit> <text>`."""
    known = {}
    p = os.path.join(VERIF, "known_findings.txt")
    if os.path.exists(p):
        for line in open(p):
            line = line.strip()
            m = re.match(r"known:\s+property=(\S+)\s+key=(\S+)\s*(.*)", line)
            if m:
                known[(m.group(1), m.group(2))] = m.group(3)
    return known


class Check:
    """One run of one property check."""

    def __init__(self, pid, level="exploration"):
        self.pid = pid
        self.level = level
        self.tier = os.environ.get("VERIF_TIER", "quick")
        self.seed = int(os.environ.get("VERIF_SEED", "0") or 0)
        self.t0 = time.time()
        self.violations = []        # (key, text, witness)
        self.known_hits = {}
        self.known = load_known()
        self.evaluations = 0
        self.nontrivial = set()
        self.samples = []
        self.extra = {}
        self.assumptions = []
        self.rule = ""
        self.inconclusive = []
        self.min_nontrivial = 2
        self.replay_written = None
        self.nontrivial_count = None   # measured count of distinct non-trivial cases when cases are distinct by construction

    # -- accounting
    def note(self, nontrivial_key=None, n=1):
        self.evaluations += n
        if nontrivial_key is not None:
            self.nontrivial.add(nontrivial_key)

    def sample(self, obj, limit=6):
        if len(self.samples) < limit:
            self.samples.append(obj)

    def count(self, name, n=1):
        self.extra[name] = self.extra.get(name, 0) + n

    def violation(self, key, text, witness=None):
        """key: mechanism key (never derived from seeds / random values)."""
        if (self.pid, key) in self.known:
            self.known_hits.setdefault(key, [0, self.known[(self.pid, key)] or text])
            self.known_hits[key][0] += 1
            return False
        self.violations.append((key, text, witness))
        return True

    def inconclusive_if(self, cond, why):
        if cond:
            self.inconclusive.append(why)

    # -- replay
    def write_replay(self, files=None):
        d = os.path.join(os.environ.get("VERIF_REPLAY_DIR") or os.path.join(VERIF, "replay"), self.pid)
        os.makedirs(d, exist_ok=True)
        path = os.path.join(d, "witness_%s_seed%d.json" % (self.tier, self.seed))
        with open(path, "w") as f:
            json.dump({"property": self.pid, "tier": self.tier, "seed": self.seed,
                       "violations": [{"key": k, "text": t, "witness": w} for k, t, w in self.violations[:50]],
                       "replay_cmd": "VERIF_SEED=%d ./check %s --tier %s" % (self.seed, self.pid, self.tier)},
                      f, indent=1, default=str)
        for src in files or []:
            try:
                if os.path.isdir(src):
                    dst = os.path.join(d, os.path.basename(src))
                    shutil.rmtree(dst, ignore_errors=True)
                    shutil.copytree(src, dst)
                else:
                    shutil.copy(src, d)
            except Exception:
                pass
        self.replay_written = path
        return path

    # -- finish
    def finish(self, witness_files=None):
        wall = time.time() - self.t0
        nn = self.nontrivial_count if self.nontrivial_count is not None else len(self.nontrivial)
        cov = {"evaluations": int(self.evaluations), "distinct_nontrivial": int(nn),
               "rule": self.rule, "samples": self.samples or ["(none)"]}
        cov.update(self.extra)
        cov["known_findings_seen"] = {k: v[0] for k, v in self.known_hits.items()}
        cov["inconclusive_reasons"] = self.inconclusive
        ev = {"property_id": self.pid, "tier": self.tier, "seed": self.seed, "level": self.level,
              "coverage": cov, "assumptions": self.assumptions, "wall_s": round(wall, 2),
              "violations": len(self.violations)}
        # VERIF_EVIDENCE_DIR is set only by tools/seeded_eval.py, so that runs against patched scratch copies do not
        # overwrite the evidence of the registered checks (which always comes from /repo itself)
        evdir = os.environ.get("VERIF_EVIDENCE_DIR") or os.path.join(VERIF, "evidence")
        os.makedirs(evdir, exist_ok=True)
        with open(os.path.join(evdir, self.pid + ".json"), "w") as f:
            json.dump(ev, f, indent=1, default=str)
        for k, v in self.known_hits.items():
            print("KNOWN-FINDING: property=%s %s [key=%s, seen %d times]" % (self.pid, v[1], k, v[0]))
        print("%s tier=%s seed=%d evaluations=%d distinct_nontrivial=%d wall=%.1fs" %
              (self.pid, self.tier, self.seed, self.evaluations, nn, wall))
        if self.violations:
            path = self.write_replay(witness_files)
            seen = set()
            for k, t, w in self.violations:
                if k in seen:
                    continue
                seen.add(k)
                print("  violation key=%s: %s" % (k, t))
            print("VIOLATION property=%s replay=%s" % (self.pid, path))
            sys.exit(1)
        if nn < self.min_nontrivial:
            self.inconclusive.append("only %d distinct non-trivial cases (< %d)" % (nn, self.min_nontrivial))
        if self.inconclusive:
            for why in self.inconclusive:
                print("INCONCLUSIVE property=%s %s" % (self.pid, why))
            sys.exit(3)
        print("HELD property=%s on everything observed" % self.pid)
        sys.exit(0)
