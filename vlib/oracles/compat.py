"""Independent structural-compatibility model for C01 (no IsoQuant code).

A read is described by its TRUE exons (before junction jitter) and its ALIGNED exons.
compatible(iso, true_exons, tol): the read's true intron chain is a contiguous sub-chain of iso's introns, iso has no
further intron inside the read's span, and the read's ends lie inside the corresponding exons of iso extended by tol."""


def introns(exons):
    return [(exons[i][1] + 1, exons[i + 1][0] - 1) for i in range(len(exons) - 1)]


def compatible(iso_exons, true_exons, tol):
    r_in = introns(true_exons)
    i_in = introns(iso_exons)
    rs, re_ = true_exons[0][0], true_exons[-1][1]
    if r_in:
        n = len(r_in)
        for k in range(len(i_in) - n + 1):
            if i_in[k:k + n] == r_in:
                first_exon = iso_exons[k]
                last_exon = iso_exons[k + n]
                return rs >= first_exon[0] - tol and re_ <= last_exon[1] + tol
        return False
    # mono-exonic read: inside one exon of the isoform
    for e in iso_exons:
        if rs >= e[0] - tol and re_ <= e[1] + tol:
            return True
    return False


def full_length(iso_exons, true_exons, delta):
    return introns(true_exons) == introns(iso_exons) and len(iso_exons) > 1 and \
        abs(true_exons[0][0] - iso_exons[0][0]) <= delta and abs(true_exons[-1][1] - iso_exons[-1][1]) <= delta


def hard_difference(iso_exons, aligned_exons, end_far=400):
    """True if the aligned read differs from the isoform far beyond every tolerance."""
    r_in = introns(aligned_exons)
    i_in = introns(iso_exons)
    rs, re_ = aligned_exons[0][0], aligned_exons[-1][1]
    # a read intron with no isoform intron whose two ends are both within 100 bp
    for ri in r_in:
        if not any(abs(ri[0] - ii[0]) <= 100 and abs(ri[1] - ii[1]) <= 100 for ii in i_in):
            return True
    # an isoform intron (> 100 bp) well inside the read span with no such read intron
    for ii in i_in:
        if ii[1] - ii[0] + 1 > 100 and ii[0] >= rs + 60 and ii[1] <= re_ - 60:
            if not any(abs(ri[0] - ii[0]) <= 100 and abs(ri[1] - ii[1]) <= 100 for ri in r_in):
                return True
    # a read intron spanning an isoform exon >= 150 bp
    for ri in r_in:
        for e in iso_exons:
            if e[1] - e[0] + 1 >= 150 and ri[0] <= e[0] and e[1] <= ri[1]:
                return True
    # a read end lying >= 300 bp inside an isoform intron (>= 100 bp before its other end) while the terminal block of the read
    # covers the isoform exon next to that intron: a partly retained intron
    for ii in i_in:
        if ii[0] + 300 <= re_ <= ii[1] - 100 and aligned_exons[-1][0] < ii[0] - 30:
            return True
        if ii[0] + 100 <= rs <= ii[1] - 300 and aligned_exons[0][1] > ii[1] + 30:
            return True
    # an end >= end_far (400) bp outside the isoform
    if rs <= iso_exons[0][0] - end_far or re_ >= iso_exons[-1][1] + end_far:
        return True
    return False
