"""Documented read weights for the expression tables (docs/cmd.md, 'Available options for quantification'),
as exact rationals. Independent of src/."""
from collections import defaultdict
from fractions import Fraction

UNIQUE = {"unique", "unique_minor_difference"}
INCONS = {"inconsistent", "inconsistent_non_intronic", "inconsistent_ambiguous"}


def admits(strategy):
    return {
        "ambiguous": strategy in ("with_ambiguous", "all"),
        "inconsistent_minor": strategy in ("unique_splicing_consistent", "unique_inconsistent", "all"),
        "inconsistent": strategy in ("unique_inconsistent", "all"),
    }


def weight(atype, k, strategy):
    """weight each of the k features of one read record gets."""
    a = admits(strategy)
    if k == 0:
        return Fraction(0)
    if atype in UNIQUE:
        return Fraction(1) if k == 1 else Fraction(0)
    if atype == "ambiguous":
        if k == 1:
            return Fraction(1)
        return Fraction(1, k) if a["ambiguous"] else Fraction(0)
    if atype in INCONS:
        if atype == "inconsistent_ambiguous" or k > 1:
            return Fraction(1, k) if (a["ambiguous"] and a["inconsistent"]) else Fraction(0)
        if a["inconsistent"]:
            return Fraction(1)
        if a["inconsistent_minor"] and atype == "inconsistent_non_intronic":
            return Fraction(1)
        return Fraction(0)
    return Fraction(0)


def group_records(assignments):
    """read_assignments.tsv lines -> records: one per (read_id, chr, exons) = one alignment of a read;
    each with the set of isoforms / genes reported and the two assignment types."""
    recs = {}
    for a in assignments:
        key = (a.read_id, a.chr, tuple(a.exons))
        r = recs.setdefault(key, {"read": a.read_id, "chr": a.chr, "exons": a.exons, "isoforms": set(), "genes": set(),
                                  "atype": a.atype, "gtype": a.info.get("gene_assignment", a.atype), "strand": a.strand,
                                  "lines": 0})
        r["lines"] += 1
        if a.isoform != ".":
            r["isoforms"].add(a.isoform)
        if a.gene != ".":
            r["genes"].add(a.gene)
    return list(recs.values())


def expected_table(records, level, strategy, group_of=None):
    """level: 'gene' | 'transcript'.  Returns feature -> group -> Fraction, per-read totals, stats."""
    table = defaultdict(lambda: defaultdict(Fraction))
    per_read = defaultdict(Fraction)
    stats = {"ambiguous_records": 0, "ambiguous_reads": set(), "no_feature_records": 0, "no_feature_reads": set()}
    for r in records:
        feats = r["genes"] if level == "gene" else r["isoforms"]
        atype = r["gtype"] if level == "gene" else r["atype"]
        g = group_of(r["read"]) if group_of else "NA"
        if atype in ("noninformative", "intergenic") or not feats:
            stats["no_feature_records"] += 1
            stats["no_feature_reads"].add(r["read"])
            continue
        if atype == "ambiguous":
            stats["ambiguous_records"] += 1
            stats["ambiguous_reads"].add(r["read"])
        wgt = weight(atype, len(feats), strategy)
        for f in feats:
            table[f][g] += wgt
            per_read[r["read"]] += wgt
    return table, per_read, stats
