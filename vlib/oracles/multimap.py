"""Priority model for multi-mapped reads, transcribed from the property statement (nothing about penalties):
   primary & uniquely & consistently assigned  >  consistent  >  inconsistent  >  uninformative;
   exact duplicates collapse; ties keep all; losers are suppressed."""

UNIQUE = {"unique", "unique_minor_difference"}
CONSISTENT = UNIQUE | {"ambiguous"}
INCONSISTENT = {"inconsistent", "inconsistent_non_intronic", "inconsistent_ambiguous"}


def klass(a):
    """a: dict(type, mm)"""
    if a["type"] in UNIQUE and not a["mm"]:
        return 0
    if a["type"] in CONSISTENT:
        return 1
    if a["type"] in INCONSISTENT:
        return 2
    return 3


def ident(a):
    return (a["chr"], a["start"], a["end"], tuple(sorted(a["iso"] if isinstance(a["iso"], (list, tuple, set)) else [a["iso"]])))


def judge(before, after):
    """before/after: lists of dicts (same order). Returns list of (key, text) problems."""
    problems = []
    if len(before) != len(after):
        return [("resolution-changed-record-count", "%d records in, %d out" % (len(before), len(after)))]
    if len(before) <= 1:
        return problems
    classes = [klass(b) for b in before]
    best = min(classes)
    kept = [i for i, a in enumerate(after) if a["type"] != "suspended"]
    if not kept:
        problems.append(("all-alignments-suppressed", "no alignment of the read was retained"))
        return problems
    for i in kept:
        if classes[i] != best:
            problems.append(("retained-alignment-of-lower-priority",
                             "retained %s/%s (class %d) although class %d exists" % (before[i]["type"], "secondary" if before[i]["mm"] else "primary",
                                                                                 classes[i], best)))
    best_idents = set(ident(before[i]) for i in range(len(before)) if classes[i] == best)
    kept_idents = [ident(before[i]) for i in kept]
    if best in (0, 1):
        # ties keep all (modulo exact duplicates)
        if set(kept_idents) != best_idents:
            problems.append(("tie-not-kept-on-all-loci", "best class has %d distinct alignments, %d retained" % (len(best_idents), len(set(kept_idents)))))
    if len(kept_idents) != len(set(kept_idents)):
        problems.append(("duplicate-alignment-retained-twice", "identical alignments retained more than once: %s" % kept_idents[:3]))
    # ambiguity flag when several distinct isoforms/genes are kept
    isos = set()
    genes = set()
    for i in kept:
        isos |= set(before[i]["iso"])
        genes |= set(before[i].get("gene_list", []))
    if len(isos) > 1:
        for i in kept:
            if after[i]["type"] not in ("ambiguous", "inconsistent_ambiguous"):
                problems.append(("tie-not-flagged-ambiguous", "read kept on isoforms %s but a retained record has type %s" % (sorted(isos)[:4], after[i]["type"])))
                break
    return problems
