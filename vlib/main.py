"""./check <property> [--tier quick|thorough] [--replay PATH]"""
import argparse
import importlib
import os
import shutil
import sys
import traceback


def main():
    ap = argparse.ArgumentParser()
    ap.add_argument("property")
    ap.add_argument("--tier", default=os.environ.get("VERIF_TIER", "quick"), choices=["quick", "thorough"])
    ap.add_argument("--replay", default=None)
    a = ap.parse_args()
    os.environ["VERIF_TIER"] = a.tier
    pid = a.property.upper()
    from vlib.evidence import Check
    from vlib import runner
    mod = importlib.import_module("vlib.checks.%s" % pid.lower())
    chk = Check(pid, level=getattr(mod, "LEVEL", "exploration"))
    scratch = runner.make_scratch(pid.lower())
    chk.scratch = scratch
    try:
        try:
            mod.run(chk, scratch)
        except SystemExit:
            raise
        except runner.Inconclusive as e:
            chk.inconclusive.append(str(e))
        except BaseException:
            traceback.print_exc()
            chk.inconclusive.append("check machinery raised an exception (see traceback)")
        chk.finish(getattr(chk, "witness_files", None))
    finally:
        if not os.environ.get("VERIF_KEEP_SCRATCH"):
            shutil.rmtree(scratch, ignore_errors=True)


if __name__ == "__main__":
    main()
