"""Richer world constructions: paralogs (multi-mappers), overlapping / antisense genes, read groups."""
from vlib.world import World, Gene, Transcript, add_standard_reads


def clone_gene(w, g, new_gid, chrom, new_start):
    """Copy gene g (sequence and annotation) to another place: a paralog. Returns the new gene."""
    pad = 150
    src_s, src_e = g.start - pad, g.end + pad
    off = new_start - g.start
    seq = w.chroms[g.chrom][src_s - 1:src_e]
    dst = w.chroms[chrom]
    ds = src_s + off
    if ds < 1 or ds - 1 + len(seq) > len(dst):
        return None
    dst[ds - 1:ds - 1 + len(seq)] = seq
    ng = Gene(new_gid, chrom, g.strand)
    ng.site_class = g.site_class
    for k, t in enumerate(g.transcripts):
        ng.transcripts.append(Transcript("%s.t%d" % (new_gid, k + 1), new_gid, chrom, g.strand,
                                         [(s + off, e + off) for s, e in t.exons], True, t.kind))
    for k, t in enumerate(g.hidden):
        ng.hidden.append(Transcript("%s.h%d" % (new_gid, k + 1), new_gid, chrom, g.strand,
                                    [(s + off, e + off) for s, e in t.exons], False, t.kind))
    w.genes.append(ng)
    return ng


def overlapping_gene(w, g, new_gid, antisense=False):
    """A second gene overlapping g: shares g's 2nd and 3rd backbone exons (same strand) or lies antisense
    with its own exons inside g's introns."""
    bb = g.transcripts[0].exons
    if len(bb) < 4:
        return None
    strand = g.strand
    if antisense:
        strand = "-" if g.strand == "+" else "+"
        ex = []
        for i in range(len(bb) - 1):
            s, e = bb[i][1] + 1, bb[i + 1][0] - 1
            if e - s > 500:
                ex.append((s + 150, s + 150 + min(200, e - s - 320)))
            if len(ex) == 2:
                break
        if len(ex) < 2:
            return None
        ng = Gene(new_gid, g.chrom, strand)
        ng.transcripts.append(Transcript(new_gid + ".t1", new_gid, g.chrom, strand, ex, True, "antisense"))
        for intr in ng.transcripts[0].introns:
            # only plant where no exon boundary of g is touched
            if not any(s - 2 <= p <= e + 2 for p in (intr[0], intr[0] + 1, intr[1] - 1, intr[1])
                       for t in g.transcripts + g.hidden for s, e in t.exons):
                w.plant_sites(g.chrom, intr, strand)
        w.genes.append(ng)
        return ng
    ng = Gene(new_gid, g.chrom, strand)
    last = bb[-1]
    own_start = last[1] + 400
    if own_start + 400 > w.chrom_len(g.chrom):
        return None
    ex = [bb[1], bb[2], (own_start, own_start + 220)]
    ng.transcripts.append(Transcript(new_gid + ".t1", new_gid, g.chrom, strand, ex, True, "shared-exons"))
    w.plant_sites(g.chrom, (bb[2][1] + 1, own_start - 1), strand)
    w.genes.append(ng)
    return ng


def rich_world(seed, n_chroms=6, genes_per_chrom=3, groups=3, multimappers=True, reads_per_t=5, hidden_cov=5,
               unmapped=3, polya_frac=0.5, read_modes=None, extra_len=0, zoo=(), eqx_every=5):
    """Several chromosomes of distinct lengths, novel (hidden) isoforms on every chromosome, shared-exon and antisense
    genes, paralogs with multi-mapped reads, read-group tags, a few unmapped records."""
    w = World(seed)
    rng = w.rng
    for ci in range(n_chroms):
        cname = "chr%d" % (ci + 1)
        w.add_chrom(cname, 60000 + ci * 4321 + genes_per_chrom * 9000 + extra_len + (205000 if zoo else 0))
        pos = 1500
        for gi in range(genes_per_chrom):
            gid = "G%d_%d" % (ci + 1, gi + 1)
            hk = ("nnic_skip",) if gi == 0 else rng.choice([("nnic_site",), ("nic",), ()])
            n_ex = rng.randint(4, 7)
            if gid == "G1_1":
                n_ex = max(5, n_ex)         # the gene family used for multi-mapped reads needs room for two different inconsistencies
            g, end = w.make_gene(gid, cname, pos, rng.choice("+-"), n_exons=n_ex, n_iso=rng.randint(2, 4),
                                 hidden_kinds=hk)
            if gi == 0:
                og = overlapping_gene(w, g, "O%d_%d" % (ci + 1, gi + 1))
                if og:
                    end = max(end, og.end)
            if gi == 1:
                overlapping_gene(w, g, "A%d_%d" % (ci + 1, gi + 1), antisense=True)
            pos = end + rng.randint(1500, 2500)
        g2, end2 = w.make_mono_gene("M%d" % (ci + 1), cname, pos, rng.choice("+-"))
        pos = end2 + 2000
        if multimappers and ci > 0:
            src = [g for g in w.genes if g.id == "G1_1"][0]
            if pos + (src.end - src.start) + 1000 < w.chrom_len(cname):
                clone_gene(w, src, "P%d" % (ci + 1), cname, pos)
        if multimappers and ci == 0:
            # a tandem paralog on the SAME chromosome (reads whose alignments all sit on one chromosome)
            src = [g for g in w.genes if g.id == "G1_1"][0]
            if pos + (src.end - src.start) + 1000 < w.chrom_len(cname):
                clone_gene(w, src, "Q1", cname, pos)
    add_standard_reads(w, per_transcript=reads_per_t, jitter=3, hidden_cov=hidden_cov, polya_frac=polya_frac,
                       **({"modes": read_modes} if read_modes else {}))
    if multimappers:
        fam = [g for g in w.genes if g.id == "G1_1" or g.id.startswith("P")]
        if len(fam) >= 2:
            for k in range(12):
                name = "mm%04d" % k
                ti = rng.randrange(len(fam[0].transcripts))
                order = list(fam)
                rng.shuffle(order)
                for j, g in enumerate(order[:rng.randint(2, min(3, len(order)))]):
                    t = g.transcripts[ti]
                    r = w.read_from_transcript(t, mode="full", name=name, flag=(0 if j == 0 else 256) | rng.choice((0, 16)),
                                               mapq=rng.choice((0, 1, 60)))
                    if r is not None:
                        r.truth["multimap"] = True
    if multimappers:
        # reads with primary and secondary alignment on the same chromosome (tandem paralogs), both coordinate orders
        tandem = [g for g in w.genes if g.id in ("G1_1", "Q1")]
        if len(tandem) == 2:
            for k in range(8):
                name = "tan%04d" % k
                ti = rng.randrange(len(tandem[0].transcripts))
                order = tandem if k % 2 == 0 else tandem[::-1]
                for j, g in enumerate(order):
                    r = w.read_from_transcript(g.transcripts[ti], mode="full", name=name, flag=(0 if j == 0 else 256) | rng.choice((0, 16)), mapq=60)
                    if r is not None:
                        r.truth["multimap"] = True
        # reads whose primary alignment is ambiguous between isoforms of ONE gene and whose other alignment is uninformative
        # (a spliced alignment in intergenic space of another chromosome)
        src = [g for g in w.genes if g.id == "G1_1"][0]
        if len(src.transcripts) >= 2 and len(w.chrom_order) >= 2:
            shared = [e for e in src.transcripts[0].exons if all(e in t.exons for t in src.transcripts[1:2])]
            bb = src.transcripts[0].exons
            idx = [i for i in range(len(bb) - 1) if bb[i] in shared and bb[i + 1] in shared and
                   all((bb[i][1] + 1, bb[i + 1][0] - 1) in t.introns for t in src.transcripts[:2])]
            other = w.chrom_order[1]
            free = max([g.end for g in w.genes if g.chrom == other] + [1000]) + 1500
            if idx and free + 3000 < w.chrom_len(other):
                i0 = idx[0]
                for k in range(6):
                    name = "mmamb%04d" % k
                    a, b = bb[i0], bb[i0 + 1]
                    w.make_read(src.chrom, [(a[0] + 20, a[1]), (b[0], b[1] - 20)], name=name, flag=0, mapq=60,
                                truth={"multimap": True, "class": "primary-ambiguous-within-one-gene"})
                    w.make_read(other, [(free, free + 150), (free + 700, free + 850), (free + 1400, free + 1550)], name=name, flag=256, mapq=0,
                                truth={"multimap": True, "class": "secondary-intergenic"})
            # ... and reads whose other alignment is a CONSISTENT one (mono-exonic, inside the single-exon gene of another chromosome)
            mono = [g for g in w.genes if g.id == "M2" and g.transcripts]
            if idx and mono:
                i0 = idx[0]
                me = mono[0].transcripts[0].exons[0]
                if me[1] - me[0] > 260:
                    for k in range(5):
                        name = "mmcons%04d" % k
                        a, b = bb[i0], bb[i0 + 1]
                        w.make_read(src.chrom, [(a[0] + 25, a[1]), (b[0], b[1] - 25)], name=name, flag=0, mapq=60,
                                    truth={"multimap": True, "class": "primary-ambiguous-within-one-gene"})
                        w.make_read(mono[0].chrom, [(me[0] + 20 + k, me[0] + 240)], name=name, flag=256, mapq=60,
                                    truth={"multimap": True, "class": "secondary-consistent-mono"})
        fam = [g for g in w.genes if g.id == "G1_1" or g.id.startswith("P")]
        if len(fam) >= 2 and len(fam[0].transcripts[0].exons) >= 5:
            # reads ALL of whose alignments are inconsistent, with different degrees of inconsistency: one alignment skips an exon, the other
            # one skips the exon and retains an intron as well (neither is primary)
            for k in range(5):
                name = "mminc%04d" % k
                ga, gb = (fam[0], fam[1]) if k % 2 == 0 else (fam[1], fam[0])
                ea, eb = list(ga.transcripts[0].exons), list(gb.transcripts[0].exons)
                one = ea[:1] + ea[2:]
                two = [eb[0]] + [(eb[2][0], eb[3][1])] + eb[4:]
                w.make_read(ga.chrom, one, name=name, flag=256, mapq=60, truth={"multimap": True, "class": "inconsistent-one-difference"})
                w.make_read(gb.chrom, two, name=name, flag=256, mapq=60, truth={"multimap": True, "class": "inconsistent-two-differences"})
        if len(fam) >= 2:
            # chimeric reads: the primary alignment is a full-length copy of one family member, a SUPPLEMENTARY record (0x800) a full-length
            # copy of another one; supplementary records are never assigned
            for k in range(4):
                name = "supp%04d" % k
                ga, gb = (fam[0], fam[1]) if k % 2 == 0 else (fam[1], fam[0])
                w.make_read(ga.chrom, list(ga.transcripts[0].exons), name=name, flag=0, mapq=60, truth={"multimap": True, "class": "primary-of-chimeric-read"})
                w.make_read(gb.chrom, list(gb.transcripts[0].exons), name=name, flag=2048, mapq=60, truth={"multimap": True, "class": "supplementary-record", "supplementary": True})
        if len(fam) >= 2:
            # ties: no alignment is primary, all are equally good -> the read stays on several loci
            for k in range(8):
                name = "tie%04d" % k
                ti = rng.randrange(len(fam[0].transcripts))
                order = list(fam)
                rng.shuffle(order)
                for j, g in enumerate(order[:2]):
                    r = w.read_from_transcript(g.transcripts[ti], mode="full", name=name, flag=256 | rng.choice((0, 16)), mapq=0)
                    if r is not None:
                        r.truth["multimap"] = True
                        r.truth["tie"] = True
    if zoo:
        w.zoo_placed = add_zoo(w, zoo)
    for k in range(unmapped):
        from vlib.world import Read
        w.reads.append(Read("unm%03d" % k, None, -1, [], "ACGTACGTACGTACGT", flag=4, mapq=0, truth={"unmapped": True}))
    group_of = {}
    for i, r in enumerate(w.reads):
        # all alignment records of one read carry the read's group (the tag is a property of the read, not of the alignment)
        r.tags = [("RG", group_of.setdefault(r.name, "g%d" % (i % groups)))]
        r.file_idx = i % 2
        if eqx_every and i % eqx_every == 3 and not (r.flag & 4):
            if i % (2 * eqx_every) == 3:
                w.add_mismatches(r)      # every second of them with mismatching bases inside its blocks (X runs in the middle of a block)
            w.to_eqx(r)          # =/X operations instead of M (minimap2 --eqx, pbmm2)
    return w


def split_locus_world(seed, hidden=True):
    """A long gene (> 75 kb) processed in several regions: isoform A uses exons of the first ~36 kb, isoform B exons of the
    last ~36 kb, isoform C spans everything; coverage is dense on both sides and a single C read bridges the valley, so the
    cluster is cut at a coverage valley that lies more than 128 bins after its start."""
    w = World(seed)
    rng = w.rng
    w.add_chrom("chr1", 120000)
    w.add_chrom("chr2", 30000)
    pos = 3000
    exons = []
    p = pos
    for i in range(16):
        el = rng.randint(150, 300)
        exons.append((p, p + el - 1))
        p += el + rng.randint(4200, 5200)
    g = Gene("L1", "chr1", "+")
    a = exons[:7]
    b = exons[9:]
    g.transcripts.append(Transcript("L1.t1", "L1", "chr1", "+", exons, True, "full"))
    g.transcripts.append(Transcript("L1.t2", "L1", "chr1", "+", a, True, "left-part"))
    g.transcripts.append(Transcript("L1.t3", "L1", "chr1", "+", b, True, "right-part"))
    if hidden:
        g.hidden.append(Transcript("L1.h1", "L1", "chr1", "+", a[:2] + a[3:], False, "nnic_skip"))
        g.hidden.append(Transcript("L1.h2", "L1", "chr1", "+", b[:3] + b[4:], False, "nnic_skip"))
    for t in g.transcripts + g.hidden:
        for intr in t.introns:
            w.plant_sites("chr1", intr, "+")
    w.genes.append(g)
    g2, _ = w.make_gene("G2_1", "chr2", 2000, "-", n_exons=4, n_iso=2)
    for t in (g.transcripts[1], g.transcripts[2]):
        for _ in range(40):
            w.read_from_transcript(t, mode="full", jitter=2, polya=rng.random() < 0.7)
    for t in g.hidden:
        for _ in range(12):
            w.read_from_transcript(t, mode="full", jitter=0, polya=True)
    w.read_from_transcript(g.transcripts[0], mode="full", jitter=0, polya=True)
    for t in g2.transcripts:
        for _ in range(6):
            w.read_from_transcript(t, mode="full", jitter=1, polya=True)
    return w


def make_nic_gene(w, gid, chrom, start, strand):
    """Annotated: backbone, skip(i), skip(j); hidden: skip(i) and skip(j) together = new combination of annotated introns (.nic)."""
    rng = w.rng
    n = rng.randint(6, 8)
    bb = []
    pos = start
    for k in range(n):
        el = rng.randint(130, 300)
        bb.append((pos, pos + el - 1))
        pos += el + rng.randint(350, 900)
    i = rng.randint(1, n - 4)
    j = rng.randint(i + 2, n - 2)
    g = Gene(gid, chrom, strand)
    g.transcripts.append(Transcript(gid + ".t1", gid, chrom, strand, bb, True, "backbone"))
    g.transcripts.append(Transcript(gid + ".t2", gid, chrom, strand, bb[:i] + bb[i + 1:], True, "skip"))
    g.transcripts.append(Transcript(gid + ".t3", gid, chrom, strand, bb[:j] + bb[j + 1:], True, "skip"))
    g.hidden.append(Transcript(gid + ".h1", gid, chrom, strand, [e for k, e in enumerate(bb) if k not in (i, j)], False, "nic"))
    for t in g.transcripts + g.hidden:
        for intr in t.introns:
            w.plant_sites(chrom, intr, strand)
    w.genes.append(g)
    return g, bb[-1][1]


def two_cluster_gene(w, gid, chrom, start, strand="+", n_iso=1):
    """A gene whose reads form two separate alignment clusters (a long intron no read spans): the locus is processed as two
    regions, both naming the same reference isoform."""
    rng = w.rng
    ex = [(start, start + 400), (start + 1500, start + 1800), (start + 9000, start + 9300), (start + 10500, start + 11100)]
    g = Gene(gid, chrom, strand)
    g.transcripts.append(Transcript(gid + ".t1", gid, chrom, strand, ex, True, "two-cluster"))
    if n_iso > 1:
        g.transcripts.append(Transcript(gid + ".t2", gid, chrom, strand, [ex[0], (start + 1500, start + 1750), ex[2], ex[3]], True, "alt_donor"))
    for t in g.transcripts:
        for intr in t.introns:
            w.plant_sites(chrom, intr, strand)
    w.genes.append(g)
    for _ in range(5):
        w.make_read(chrom, [ex[0], ex[1]], polyt=30 if strand == "-" else 0, truth={"src": gid + ".t1", "class": "left-cluster"})
        w.make_read(chrom, [ex[2], ex[3]], polya=30 if strand == "+" else 0, truth={"src": gid + ".t1", "class": "right-cluster"})
    return g, ex[-1][1]


def nested_gene_locus(w, gid, chrom, start, strand="+"):
    """A host gene with a long first intron and an annotated two-exon gene of the OTHER strand nested inside that intron.  Three separate
    read clusters: unspliced reads over the host's first exon (the nested gene does not overlap them), spliced reads of the nested gene
    (inside the host's span: both genes overlap the cluster), reads over host exons 2-4 (two of them skipping exon 3)."""
    other = "-" if strand == "+" else "+"
    hx = [(start, start + 420), (start + 6200, start + 6450), (start + 7100, start + 7330), (start + 8000, start + 8500)]
    nx = [(start + 2300, start + 2620), (start + 3300, start + 3700)]
    host = Gene(gid + "H", chrom, strand)
    host.transcripts.append(Transcript(gid + "H.t1", gid + "H", chrom, strand, hx, True, "host-of-nested-gene"))
    host.transcripts.append(Transcript(gid + "H.t2", gid + "H", chrom, strand, [hx[0], hx[1], hx[3]], True, "host-of-nested-gene"))
    nested = Gene(gid + "N", chrom, other)
    nested.transcripts.append(Transcript(gid + "N.t1", gid + "N", chrom, other, nx, True, "nested-gene"))
    for g in (host, nested):
        for t in g.transcripts:
            for intr in t.introns:
                w.plant_sites(chrom, intr, g.strand)
        w.genes.append(g)
    for k in range(4):
        w.make_read(chrom, [(hx[0][0] + 6 * k, hx[0][1] - 4 * k)], polyt=25 if strand == "-" and k % 2 else 0, flag=16 if strand == "-" else 0,
                    truth={"src": gid + "H.t1", "class": "host-first-exon-only"})
    for k in range(5):
        w.make_read(chrom, [(nx[0][0] + 3 * k, nx[0][1]), (nx[1][0], nx[1][1] - 2 * k)], polya=25 if other == "+" else 0, polyt=25 if other == "-" else 0,
                    flag=16 if other == "-" else 0, truth={"src": gid + "N.t1", "class": "nested-gene-read"})
    for k in range(5):
        ex = [(hx[1][0] + 4 * k, hx[1][1]), hx[2], (hx[3][0], hx[3][1] - 3 * k)] if k < 3 else [(hx[1][0] + 4 * k, hx[1][1]), (hx[3][0], hx[3][1] - 3 * k)]
        w.make_read(chrom, ex, polya=25 if strand == "+" else 0, flag=16 if strand == "-" else 0,
                    truth={"src": gid + ("H.t1" if k < 3 else "H.t2"), "class": "host-3prime-part"})
    return host, hx[-1][1]


def strip_tails(w):
    """Remove soft-clipped polyA/polyT tails from every read (polyA-trimmed data set)."""
    for r in w.reads:
        if r.flag & 4 or not r.cigar:
            continue
        cig = list(r.cigar)
        seq = r.seq
        if cig and cig[0][0] == 4:
            seq = seq[cig[0][1]:]
            cig = cig[1:]
        if cig and cig[-1][0] == 4:
            seq = seq[:-cig[-1][1]]
            cig = cig[:-1]
        r.cigar, r.seq = cig, seq
        r.truth["polya"] = False
    return w


def add_twin_loci(w, per_chrom=3, offsets=(2, 3, 4, 6), n_reads=3, prefix="NG", skip_isoform=True, chroms=None):
    """NAGNAG-like loci: isoforms tA / tB whose intron j (never the gene's first intron) differs by d bp at ONE boundary, plus
    (optionally) an isoform tS skipping the exon next to that boundary.  Reads: exact copies of each isoform, reads whose junction
    lies between the twin sites (exactly midway for even d), reads 1 bp off one twin, truncated reads, and reads that do not
    reach the twin intron.  Everything else about the reads is error-free."""
    from vlib.world import Gene, Transcript
    rng = w.rng
    made = []
    for ci, chrom in enumerate(chroms or w.chrom_order):
        pos = max([g.end for g in w.genes if g.chrom == chrom] + [1000]) + 2500
        for k in range(per_chrom):
            if pos + 9000 > w.chrom_len(chrom):
                break
            strand = "+-"[(k + ci) % 2]
            ex = []
            p = pos
            for j in range(5):
                L_ = rng.randint(180, 320)
                ex.append((p, p + L_ - 1))
                p += L_ + rng.randint(500, 900)
            d = offsets[(k + ci) % len(offsets)]
            side = ("left", "right")[k % 2]
            j = rng.randint(1, 3)                 # intron j lies between exon j and exon j + 1; j >= 1: not the first intron
            exb = list(ex)
            if side == "left":
                exb[j] = (ex[j][0], ex[j][1] + d)
            else:
                exb[j + 1] = (ex[j + 1][0] + d, ex[j + 1][1])
            gid = "%s%d_%d" % (prefix, w.chrom_order.index(chrom) + 1, k + 1)
            g = Gene(gid, chrom, strand)
            g.transcripts.append(Transcript(gid + ".tA", gid, chrom, strand, ex, True, "twin"))
            g.transcripts.append(Transcript(gid + ".tB", gid, chrom, strand, exb, True, "twin"))
            if skip_isoform:
                sk = j if (side == "left" and j >= 1) else j + 1
                if 1 <= sk <= 3:
                    exs = [e for i, e in enumerate(ex) if i != sk]
                    g.transcripts.append(Transcript(gid + ".tS", gid, chrom, strand, exs, True, "twin-skip"))
            for t in g.transcripts:
                for intr in t.introns:
                    w.plant_sites(chrom, intr, strand)
            w.genes.append(g)
            made.append(g)

            def variant(delta_bp):
                e = list(ex)
                if side == "left":
                    e[j] = (ex[j][0], ex[j][1] + delta_bp)
                else:
                    e[j + 1] = (ex[j + 1][0] + delta_bp, ex[j + 1][1])
                return e
            vm = variant(d // 2)
            far = ex[:j] if j >= 2 else ex[j + 2:]
            for _ in range(n_reads):
                for cls, e in (("twin-exact-A", list(ex)), ("twin-exact-B", list(exb)), ("twin-between", vm),
                               ("twin-off-by-one-A", variant(-1)), ("twin-off-by-one-B", variant(d + 1)),
                               ("twin-truncated", [(vm[j][0] + 40, vm[j][1]), (vm[j + 1][0], vm[j + 1][1] - 40)]),
                               ("twin-not-reaching", far)):
                    if len(e) >= 2 and all(a < b for a, b in e):
                        w.make_read(chrom, e, truth={"src": gid + ".tA", "class": cls, "twin_d": d, "twin_side": side},
                                    flag=rng.choice((0, 16)), polya=30 if (strand == "+" and e[-1] == ex[-1] and rng.random() < 0.5) else 0)
                if skip_isoform and len(g.transcripts) == 3:
                    w.make_read(chrom, g.transcripts[2].exons, truth={"src": gid + ".tS", "class": "twin-skip"}, flag=rng.choice((0, 16)))
            pos = p + rng.randint(2500, 3500)
    return made


def intronic_novel_loci(w, gid, chrom, pos, strand, n_reads=12):
    """A two-exon annotated gene with a 4.6-kb intron and two unannotated three-exon transcripts of the same strand inside that
    intron (no splice site shared with the annotation): the novel loci are scored against the annotated gene when novel genes are
    joined to existing ones.  gid is used verbatim (lower-case ids sort after 'novel_gene_...')."""
    ref = [(pos, pos + 400), (pos + 5000, pos + 5400)]
    inner = [[(pos + 1000, pos + 1300), (pos + 1600, pos + 1900), (pos + 2200, pos + 2500)],
             [(pos + 3000, pos + 3300), (pos + 3600, pos + 3850), (pos + 4150, pos + 4380)]]     # spans differ: no exact tie of the joining scores
    g = Gene(gid, chrom, strand)
    g.transcripts.append(Transcript(gid + "-201", gid, chrom, strand, ref, True, "long-intron-host"))
    for k, e in enumerate(inner):
        g.hidden.append(Transcript("%s_inner%d" % (gid, k + 1), gid, chrom, strand, e, False, "intronic-novel-locus"))
    for t in g.transcripts + g.hidden:
        for i in t.introns:
            w.plant_sites(chrom, i, strand)
    w.genes.append(g)
    for t in g.transcripts + g.hidden:
        for _ in range(n_reads):
            w.make_read(chrom, list(t.exons), polya=30 if strand == "+" else 0, polyt=30 if strand == "-" else 0,
                        flag=0 if strand == "+" else 16, truth={"src": t.id, "class": t.kind, "annotated": t.annotated})
    return g, pos + 5400


def alt_polya_locus(w, gid, chrom, pos, strand, ext=1200, n_reads=8):
    """Annotated gene (T1: 4 exons, T2: exon-skipping variant) whose reads all follow T1's intron chain; half of them end at T1's
    annotated 3' end, half at an alternative polyA site `ext` bp further downstream (far beyond apa_delta): a full-length path with a
    reference intron chain that is NOT a matching assignment of the reference isoform."""
    span = 4400 + ext

    def m(a, b):
        return (pos + a, pos + b) if strand == "+" else (pos + span - b, pos + span - a)
    t1 = sorted(m(a, b) for a, b in ((0, 300), (1000, 1200), (2000, 2200), (3000, 3400)))
    t2 = sorted(m(a, b) for a, b in ((0, 300), (2000, 2200), (3000, 3400)))
    long3 = sorted(m(a, b) for a, b in ((0, 300), (1000, 1200), (2000, 2200), (3000, 3400 + ext)))
    g = Gene(gid, chrom, strand)
    g.transcripts.append(Transcript(gid + ".t1", gid, chrom, strand, t1, True, "alt-polya-host"))
    g.transcripts.append(Transcript(gid + ".t2", gid, chrom, strand, t2, True, "alt-polya-host"))
    for t in g.transcripts:
        for i in t.introns:
            w.plant_sites(chrom, i, strand)
    w.genes.append(g)
    tail = {"polya": 30} if strand == "+" else {"polyt": 30}
    for _ in range(n_reads):
        w.make_read(chrom, t1, flag=0 if strand == "+" else 16, truth={"src": gid + ".t1", "class": "reference-chain-annotated-end"}, **tail)
        w.make_read(chrom, long3, flag=0 if strand == "+" else 16, truth={"src": gid + ".t1", "class": "reference-chain-alternative-polya-site"}, **tail)
    return g, pos + span


# ---------------------------------------------------------------------------------------------------------------
# "zoo": special loci collected from the seeded-change rounds, usable in any world (each adds genes AND reads)
def _free_pos(w, chrom, gap=2500):
    return max([g.end for g in w.genes if g.chrom == chrom] + [1000]) + gap


def _reads_for(w, g, n_ann=5, n_hidden=8, modes=("full", "full", "trunc5")):
    rng = w.rng
    for t in g.transcripts:
        for _ in range(n_ann):
            w.read_from_transcript(t, mode=rng.choice(modes), jitter=0, polya=rng.random() < 0.7, flag=rng.choice((0, 16)))
    for t in g.hidden:
        for _ in range(n_hidden):
            w.read_from_transcript(t, mode="full", jitter=0, polya=True, flag=rng.choice((0, 16)))


def contested_intron_locus(w, gid, chrom, pos, true_strand, wrong_first):
    """Intron annotated on isoforms of BOTH strands (1 isoform of the strand the reference supports, 2 of the other) and an
    unannotated isoform of the supported strand over it whose other intron is canonical on neither strand."""
    span = 2000

    def m(a, b):
        return (pos + a, pos + b) if true_strand == "+" else (pos + span - b, pos + span - a)

    def exs(lst):
        return sorted(m(a, b) for a, b in lst)
    other = "-" if true_strand == "+" else "+"
    gs = Gene(gid + "P", chrom, true_strand)
    gs.transcripts.append(Transcript(gid + "P.t1", gid + "P", chrom, true_strand, exs([(0, 300), (600, 900), (1500, 1800)]), True, "contested-intron"))
    gs.hidden.append(Transcript(gid + "P.h1", gid + "P", chrom, true_strand, exs([(0, 300), (600, 800), (1100, 1400)]), False, "contested-intron-novel"))
    go = Gene(gid + "M", chrom, other)
    go.transcripts.append(Transcript(gid + "M.t1", gid + "M", chrom, other, exs([(120, 300), (600, 760)]), True, "contested-intron"))
    go.transcripts.append(Transcript(gid + "M.t2", gid + "M", chrom, other, exs([(40, 300), (600, 840)]), True, "contested-intron"))
    for i in gs.transcripts[0].introns:
        w.plant_sites(chrom, i, true_strand, "canonical")
    contested = [i for i in gs.transcripts[0].introns if i in go.transcripts[0].introns][0]
    for i in gs.hidden[0].introns:
        if i != contested:
            w.plant_sites(chrom, i, true_strand, "none")
    w.genes += [go, gs] if wrong_first else [gs, go]
    return [gs, go], pos + span


def alt_terminal_locus(w, gid, chrom, p, strand, side, k=0):
    """Unannotated isoform whose first (side L) / last (side R) exon begins / ends in the middle of an intron of the annotated one."""
    a = [(p, p + 299), (p + 1000, p + 1299), (p + 2000, p + 2299), (p + 3000, p + 3399)]
    b = [(p + 650 + 10 * k, p + 1299), a[2], a[3]] if side == "L" else [a[0], a[1], (p + 2000, p + 2640 + 10 * k)]
    g = Gene(gid, chrom, strand)
    g.transcripts.append(Transcript(gid + ".t1", gid, chrom, strand, a, True, "alt-terminal"))
    g.hidden.append(Transcript(gid + ".h1", gid, chrom, strand, b, False, "alt-terminal-exon-inside-intron"))
    for intr in g.transcripts[0].introns:
        w.plant_sites(chrom, intr, strand)
    w.genes.append(g)
    return g, p + 3400


def shifted_site_locus(w, gid, chrom, p, strand, side):
    """Unannotated isoform = annotated one with ONE acceptor / donor moved by 25 bp."""
    a = [(p, p + 130), (p + 640, p + 921), (p + 1790, p + 2160), (p + 2831, p + 3133)]
    b = list(a)
    if side == "L":
        b[1] = (a[1][0] + 25, a[1][1])
    else:
        b[2] = (a[2][0], a[2][1] - 25)
    g = Gene(gid, chrom, strand)
    g.transcripts.append(Transcript(gid + ".t1", gid, chrom, strand, a, True, "shifted-site-host"))
    g.hidden.append(Transcript(gid + ".h1", gid, chrom, strand, b, False, "site-moved-by-25"))
    for intr in g.transcripts[0].introns + g.hidden[0].introns:
        w.plant_sites(chrom, intr, strand)
    w.genes.append(g)
    return g, p + 3200


def shared_chain_locus(w, gid, chrom, p, strand):
    """Annotated isoforms sharing ONE intron chain: t2 = t1 cut at an alternative polyA site, t3 = last intron of t1 retained."""
    a = [(p, p + 205), (p + 748, p + 953), (p + 1961, p + 2104), (p + 2862, p + 2993)]
    if strand == "-":
        a = sorted((2 * p + 2993 - e, 2 * p + 2993 - s_) for s_, e in a)
        variants = [a, a[1:], [(a[0][0], a[1][1])] + a[2:]]
    else:
        variants = [a, a[:3], a[:2] + [(a[2][0], a[3][1])]]
    g = Gene(gid, chrom, strand)
    for vi, ex in enumerate(variants):
        g.transcripts.append(Transcript("%s.t%d" % (gid, vi + 1), gid, chrom, strand, ex, True, "shared-intron-chain"))
    for intr in g.transcripts[0].introns:
        w.plant_sites(chrom, intr, strand)
    w.genes.append(g)
    return g, p + 3000


def ambiguous_only_locus(w, gid, chrom, p, strand, n_reads=6):
    """Two isoforms that differ only in their 3' terminal exon (equally long); every read is a partial spliced read over the shared
    exons: no read is unique at the transcript level, every read is unique at the gene level."""
    shared = [(p, p + 250), (p + 800, p + 1000), (p + 1700, p + 1950)]
    la, lb = (p + 2600, p + 2900), (p + 3400, p + 3700)
    if strand == "+":
        ta, tb = shared + [la], shared + [lb]
        reads = [[(shared[0][0] + 10 * k, shared[0][1]), shared[1], (shared[2][0], shared[2][1] - 40 - 5 * k)] for k in range(n_reads)]
    else:
        m = lambda e: (2 * p + 3700 - e[1], 2 * p + 3700 - e[0])
        sh = sorted(m(e) for e in shared)
        ta, tb = sorted([m(la)] + sh), sorted([m(lb)] + sh)
        reads = [[(sh[0][0] + 40 + 5 * k, sh[0][1]), sh[1], (sh[2][0], sh[2][1] - 10 * k)] for k in range(n_reads)]
    g = Gene(gid, chrom, strand)
    g.transcripts.append(Transcript(gid + ".t1", gid, chrom, strand, ta, True, "ambiguous-only"))
    g.transcripts.append(Transcript(gid + ".t2", gid, chrom, strand, tb, True, "ambiguous-only"))
    for t in g.transcripts:
        for intr in t.introns:
            w.plant_sites(chrom, intr, strand)
    w.genes.append(g)
    for ex in reads:
        w.make_read(chrom, ex, truth={"src": gid + ".t1", "class": "partial-read-shared-by-all-isoforms"})
    # the same partial reads with one junction misplaced by 2 bp (within every tolerance): the read's own intron is not an annotated one,
    # its splice sites are not canonical, and without a tail its strand stays undefined
    for k, ex in enumerate(reads[:3]):
        # two exons only: the misplaced junction is the read's only intron
        j = [(ex[0][0], ex[0][1] + (2 if k % 2 == 0 else -2)), (ex[1][0], ex[1][1] - 10 * k)] if strand == "+" else \
            [(ex[1][0] + 10 * k, ex[1][1] + (2 if k % 2 == 0 else -2)), ex[2]]
        w.make_read(chrom, j, truth={"src": gid + ".t1", "class": "partial-read-jittered-junction"})
    return g, p + 3700


def one_bp_exon_locus(w, gid, chrom, p, strand):
    """Annotated transcripts with a ONE-base exon: t1 internal (expressed), t2 terminal (not expressed)."""
    t1 = [(p, p + 300), (p + 900, p + 900), (p + 1500, p + 1800), (p + 2400, p + 2700)]
    t2 = [(p, p + 300), (p + 1500, p + 1800), (p + 3300, p + 3300)]
    g = Gene(gid, chrom, strand)
    g.transcripts.append(Transcript(gid + ".t1", gid, chrom, strand, t1, True, "one-base-exon"))
    g.transcripts.append(Transcript(gid + ".t2", gid, chrom, strand, t2, True, "one-base-exon"))
    for t in g.transcripts:
        for intr in t.introns:
            w.plant_sites(chrom, intr, strand)
    w.genes.append(g)
    for _ in range(10):
        w.make_read(chrom, list(t1), polya=30 if strand == "+" else 0, polyt=30 if strand == "-" else 0, flag=0 if strand == "+" else 16,
                    truth={"src": gid + ".t1", "class": "exact-with-one-base-exon"})
    return g, p + 3300


def two_exon_alt_polya_locus(w, gid, chrom, p, strand):
    """Unannotated TWO-exon isoform with two well-supported polyA sites 300 bp apart (8 tailed reads each)."""
    ex = [(p, p + 400), (p + 1200, p + 1700)]
    if strand == "+":
        a, b = [ex[0], ex[1]], [ex[0], (ex[1][0], ex[1][1] + 300)]
    else:
        a, b = [ex[0], ex[1]], [(ex[0][0] - 300, ex[0][1]), ex[1]]
    g = Gene(gid, chrom, strand)
    g.hidden.append(Transcript(gid + ".h1", gid, chrom, strand, a, False, "two-exon-two-polya-sites"))
    w.plant_sites(chrom, g.hidden[0].introns[0], strand)
    w.genes.append(g)
    tail = {"polya": 30} if strand == "+" else {"polyt": 30}
    for k in range(8):
        for e in (a, b):
            w.make_read(chrom, list(e), flag=0 if strand == "+" else 16, truth={"src": gid + ".h1", "class": "two-exon-alt-polya", "annotated": False}, **tail)
    return g, p + 2000


def lowmapq_two_exon_locus(w, gid, chrom, p, strand):
    """Unannotated two-exon isoform: 4 full-length tailed reads with MAPQ 60 and 12 unspliced MAPQ-3 fragments inside its 3' exon
    (the fragments attach to the model later and pull its mean mapping quality down)."""
    ex = [(p, p + 400), (p + 1200, p + 1900)]
    g = Gene(gid, chrom, strand)
    g.hidden.append(Transcript(gid + ".h1", gid, chrom, strand, ex, False, "two-exon-low-mapq"))
    w.plant_sites(chrom, g.hidden[0].introns[0], strand)
    w.genes.append(g)
    for _ in range(4):
        w.make_read(chrom, list(ex), polya=30 if strand == "+" else 0, polyt=30 if strand == "-" else 0, flag=0 if strand == "+" else 16,
                    truth={"src": gid + ".h1", "class": "full-length", "annotated": False})
    inner = ex[1] if strand == "+" else ex[0]
    for k in range(12):
        s_ = inner[0] + 20 + 7 * k
        w.make_read(chrom, [(s_, min(inner[1] - 5, s_ + 220))], mapq=3, truth={"src": gid + ".h1", "class": "unspliced-low-mapq-fragment"})
    return g, p + 1900


def mono_only_locus(w, gid, chrom, p, strand):
    """Isolated locus made of single-exon genes only: exact reads of each, and spliced reads that jump over the second one."""
    g1 = Gene(gid + "a", chrom, strand)
    g1.transcripts.append(Transcript(gid + "a.t1", gid + "a", chrom, strand, [(p + 600, p + 1500)], True, "mono-only"))
    g2 = Gene(gid + "b", chrom, strand)
    g2.transcripts.append(Transcript(gid + "b.t1", gid + "b", chrom, strand, [(p + 3000, p + 3600)], True, "mono-only"))
    w.genes += [g1, g2]
    for _ in range(9):
        w.make_read(chrom, [(p + 600, p + 1500)], truth={"src": gid + "a.t1", "class": "exact-mono"})
    for _ in range(7):
        w.make_read(chrom, [(p + 3000, p + 3600)], truth={"src": gid + "b.t1", "class": "exact-mono"})
    w.plant_sites(chrom, (p + 2801, p + 3799), strand)
    for _ in range(5):
        w.make_read(chrom, [(p + 2500, p + 2800), (p + 3800, p + 4100)], truth={"src": gid + "b.t1", "class": "spliced-over-mono-gene"})
    return [g1, g2], p + 4100


def gap_gene_locus(w, gid, chrom, p, strand):
    """Gene G with two NON-overlapping isoforms 25 kb apart and another gene H between them: the regions of reads are G, H, G."""
    ga = [(p, p + 400), (p + 1000, p + 1300), (p + 2200, p + 2600)]
    gb = [(p + 28000, p + 28400), (p + 29000, p + 29300), (p + 30200, p + 30600)]
    h = [(p + 14000, p + 14400), (p + 15000, p + 15300), (p + 16200, p + 16600)]
    g = Gene(gid + "G", chrom, strand)
    g.transcripts.append(Transcript(gid + "G.t1", gid + "G", chrom, strand, ga, True, "gap-gene"))
    g.transcripts.append(Transcript(gid + "G.t2", gid + "G", chrom, strand, gb, True, "gap-gene"))
    gh = Gene(gid + "H", chrom, strand)
    gh.transcripts.append(Transcript(gid + "H.t1", gid + "H", chrom, strand, h, True, "gap-gene-inner"))
    for t in g.transcripts + gh.transcripts:
        for intr in t.introns:
            w.plant_sites(chrom, intr, strand)
    w.genes += [g, gh]
    for t in g.transcripts + gh.transcripts:
        for _ in range(10):
            w.make_read(chrom, list(t.exons), polya=30 if strand == "+" else 0, polyt=30 if strand == "-" else 0, flag=0 if strand == "+" else 16,
                        truth={"src": t.id, "class": "exact"})
    return [g, gh], p + 30600


def dense_two_exon_locus(w, gid, chrom, p, strand, n=56, cov=6):
    """One gene with n annotated two-exon isoforms arranged as an overlapping staircase (30 bp steps), each with `cov` exact full-length
    reads: one read-covered region in which more than 50 short models are built (organelle-like density)."""
    g = Gene(gid, chrom, strand)
    for k in range(n):
        a = p + 30 * k
        ex = [(a, a + 149), (a + 400, a + 549)]
        g.transcripts.append(Transcript("%s.t%d" % (gid, k + 1), gid, chrom, strand, ex, True, "dense-two-exon"))
    for t in g.transcripts:
        for intr in t.introns:
            w.plant_sites(chrom, intr, strand)
    w.genes.append(g)
    for t in g.transcripts:
        for _ in range(cov):
            w.make_read(chrom, list(t.exons), polya=30 if strand == "+" else 0, polyt=30 if strand == "-" else 0, flag=0 if strand == "+" else 16,
                        truth={"src": t.id, "class": "exact"})
    return g, p + 30 * n + 549


def antisense_shared_exon_locus(w, gid, chrom, p):
    """Gene A ('+', three exons) and antisense gene B ('-', two exons) whose exon next to A is A's first exon exactly (same start and end,
    other strand), plus two unspliced antisense genes with identical coordinates: exon records equal in everything but the strand."""
    p += 1200
    a = [(p, p + 300), (p + 900, p + 1150), (p + 1800, p + 2200)]
    b = [(p - 1000, p - 700), (p, p + 300)]
    ga, gb = Gene(gid + "A", chrom, "+"), Gene(gid + "B", chrom, "-")
    ga.transcripts.append(Transcript(gid + "A.t1", gid + "A", chrom, "+", a, True, "antisense-shared-exon"))
    gb.transcripts.append(Transcript(gid + "B.t1", gid + "B", chrom, "-", b, True, "antisense-shared-exon"))
    for g in (ga, gb):
        for intr in g.transcripts[0].introns:
            w.plant_sites(chrom, intr, g.strand)
    m = (p + 3200, p + 3900)
    gm, gn = Gene(gid + "M", chrom, "+"), Gene(gid + "N", chrom, "-")
    gm.transcripts.append(Transcript(gid + "M.t1", gid + "M", chrom, "+", [m], True, "antisense-unspliced-same-coordinates"))
    gn.transcripts.append(Transcript(gid + "N.t1", gid + "N", chrom, "-", [m], True, "antisense-unspliced-same-coordinates"))
    w.genes += [ga, gb, gm, gn]
    for g in (ga, gb, gm, gn):
        t = g.transcripts[0]
        for _ in range(5):
            w.make_read(chrom, list(t.exons), polya=30 if g.strand == "+" else 0, polyt=30 if g.strand == "-" else 0, flag=0 if g.strand == "+" else 16,
                        truth={"src": t.id, "class": "exact"})
    return [ga, gb, gm, gn], p + 3900


def micro_exon_sibling_locus(w, gid, chrom, p, strand, side="after", abut=False, near=False):
    """Annotated host e1-e2-e5; two unannotated isoforms through e1-e2: X (thin) continues with intron I1, a 10-bp micro-exon and intron
    I2; Y (5x the coverage) continues with intron I1' that shares I1's start and ends 15 bp further (inside I2), i.e. a sibling of I1 in
    the intron graph that overlaps X's next intron.  side="before": the mirror arrangement (micro-exon before the sibling pair)."""
    host = [(0, 300), (1000, 2000), (4200, 4600)]
    x = [(0, 300), (1000, 2000), (2501, 2510), (3201, 3600), (4200, 4600)]
    y = [(0, 300), (1000, 2000), (2516, 2800), (3601, 3900), (4200, 4600)]
    if abut:
        # the sibling intron ends exactly one base before X's next intron begins: substituting it would leave an exon of length 0
        y[2] = (2511, 2800)
    if near:
        # a 4-bp micro-exon, and the sibling intron ends 5 bp after I1 (within the distance at which similar introns are CLUSTERED, before
        # the graph exists): it covers the micro-exon and the first base of X's next intron
        x[2] = (2501, 2504)
        y[2] = (2506, 2800)
    span = 4600

    def place(ex):
        if side == "after":
            return [(p + a, p + b) for a, b in ex]
        return sorted((p + span - b, p + span - a) for a, b in ex)
    g = Gene(gid, chrom, strand)
    g.transcripts.append(Transcript(gid + ".t1", gid, chrom, strand, place(host), True, "micro-exon-host"))
    g.hidden.append(Transcript(gid + ".hX", gid, chrom, strand, place(x), False, "micro-exon-next-to-sibling-intron"))
    g.hidden.append(Transcript(gid + ".hY", gid, chrom, strand, place(y), False, "sibling-intron-overlapping-next-intron"))
    for t in g.transcripts + g.hidden:
        for intr in t.introns:
            w.plant_sites(chrom, intr, strand)
    w.genes.append(g)
    tail = dict(polya=30) if strand == "+" else dict(polyt=30, flag=16)
    for t, n in ((g.transcripts[0], 5), (g.hidden[0], 4), (g.hidden[1], 20)):
        for _ in range(n):
            w.make_read(chrom, list(t.exons), truth={"src": t.id, "class": "exact"}, **tail)
    return g, p + span


def mixed_strand_gene_locus(w, gid, chrom, p):
    """A reference gene whose transcripts lie on BOTH strands (legal, e.g. mod(mdg4)): a '+' and a '-' transcript with exons at identical
    coordinates, plus an ordinary '+' gene that shares one exon with the '+' transcript."""
    ex = [(p, p + 300), (p + 900, p + 1200), (p + 1900, p + 2300)]
    g = Gene(gid, chrom, "+")
    g.transcripts.append(Transcript(gid + ".fwd", gid, chrom, "+", list(ex), True, "mixed-strand-gene"))
    g.transcripts.append(Transcript(gid + ".rev", gid, chrom, "-", list(ex), True, "mixed-strand-gene"))
    for intr in g.transcripts[0].introns:
        w.plant_sites(chrom, intr, "+")
    o = Gene(gid + "O", chrom, "+")
    o.transcripts.append(Transcript(gid + "O.t1", gid + "O", chrom, "+", [ex[2], (p + 3000, p + 3300), (p + 3900, p + 4300)], True, "shares-an-exon-with-the-mixed-gene"))
    for intr in o.transcripts[0].introns:
        w.plant_sites(chrom, intr, "+")
    w.genes += [g, o]
    for t in (g.transcripts[0], o.transcripts[0]):
        for _ in range(5):
            w.make_read(chrom, list(t.exons), polya=30, truth={"src": t.id, "class": "exact"})
    return [g, o], p + 4300


def early_end_isoform_locus(w, gid, chrom, p, strand):
    """t1 = e1..e4, t2 = an unspliced isoform that ends INSIDE e1 (e4 for '-'), and an unannotated isoform e1-e3-e4: the end of an annotated
    isoform of the gene falls into the first (last) exon of the novel model."""
    e = [(p, p + 400), (p + 1000, p + 1200), (p + 1900, p + 2150), (p + 2800, p + 3300)]
    g = Gene(gid, chrom, strand)
    g.transcripts.append(Transcript(gid + ".t1", gid, chrom, strand, list(e), True, "early-end-host"))
    short = (e[0][0], e[0][0] + 150) if strand == "+" else (e[3][1] - 150, e[3][1])
    g.transcripts.append(Transcript(gid + ".t2", gid, chrom, strand, [short], True, "isoform-ending-inside-a-terminal-exon"))
    g.hidden.append(Transcript(gid + ".h1", gid, chrom, strand, [e[0], e[2], e[3]] if strand == "+" else [e[0], e[1], e[3]], False, "novel-over-the-early-end"))
    for t in g.transcripts + g.hidden:
        for intr in t.introns:
            w.plant_sites(chrom, intr, strand)
    w.genes.append(g)
    tail = dict(polya=30) if strand == "+" else dict(polyt=30, flag=16)
    for t, n in ((g.transcripts[0], 6), (g.hidden[0], 12)):
        for _ in range(n):
            w.make_read(chrom, list(t.exons), truth={"src": t.id, "class": "exact"}, **tail)
    return g, p + 3300


def noncanonical_novel_locus(w, gid, chrom, p):
    """An unannotated five-exon isoform in gene-free space none of whose introns has a canonical splice-site pair on either strand; its
    reads carry no tail and come in both orientations: there is no evidence for a strand at all."""
    ex = [(p, p + 300), (p + 1000, p + 1200), (p + 2000, p + 2250), (p + 3000, p + 3300), (p + 4000, p + 4400)]
    g = Gene(gid, chrom, "+")
    g.hidden.append(Transcript(gid + ".h1", gid, chrom, "+", ex, False, "no-strand-evidence"))
    for intr in g.hidden[0].introns:
        w.plant_sites(chrom, intr, "+", "none")
    w.genes.append(g)
    for k in range(12):
        w.make_read(chrom, list(ex), flag=16 * (k % 2), truth={"src": gid + ".h1", "class": "no-strand-evidence"})
    return g, p + 4400


def two_genes_shared_introns_locus(w, gid, chrom, p, strand):
    """Two annotated genes of one strand that share their first two introns (they differ in the last exon) and an unannotated isoform that uses
    exactly those two introns plus a novel one: both genes have equal claims on the novel transcript."""
    span = 5600

    def m(a, b):
        return (p + a, p + b) if strand == "+" else (p + span - b, p + span - a)

    def exs(lst):
        return sorted(m(a, b) for a, b in lst)
    common = [(0, 300), (900, 1150), (1800, 2100)]
    ga, gb = Gene(gid + "A", chrom, strand), Gene(gid + "B", chrom, strand)
    ga.transcripts.append(Transcript(gid + "A.t1", gid + "A", chrom, strand, exs(common + [(2800, 3200)]), True, "shares-introns-with-another-gene"))
    gb.transcripts.append(Transcript(gid + "B.t1", gid + "B", chrom, strand, exs(common + [(3700, 4100)]), True, "shares-introns-with-another-gene"))
    ga.hidden.append(Transcript(gid + "A.h1", gid + "A", chrom, strand, exs(common + [(4600, 5000)]), False, "novel-claimed-by-two-genes"))
    for t in ga.transcripts + gb.transcripts + ga.hidden:
        for intr in t.introns:
            w.plant_sites(chrom, intr, strand)
    w.genes += [ga, gb]
    tail = dict(polya=30) if strand == "+" else dict(polyt=30, flag=16)
    for t, n in ((ga.transcripts[0], 5), (gb.transcripts[0], 5), (ga.hidden[0], 14)):
        for _ in range(n):
            w.make_read(chrom, list(t.exons), truth={"src": t.id, "class": "exact"}, **tail)
    return [ga, gb], p + span


def weak_known_sibling_locus(w, gid, chrom, p, strand):
    """T1 = five exons, T2 = exons 1, 3, 5 of it; an unannotated isoform uses T1's first intron, an acceptor 10 bp before T1's second intron
    ends (unannotated intron) and T2's second intron.  T1 is weakly covered (3 reads against 10): in the intron graph the ANNOTATED intron is
    the weak sibling of the novel one."""
    span = 5000

    def m(a, b):
        return (p + a, p + b) if strand == "+" else (p + span - b, p + span - a)

    def exs(lst):
        return sorted(m(a, b) for a, b in lst)
    t1 = exs([(0, 200), (1000, 1150), (2000, 2200), (3000, 3150), (4000, 4400)])
    t2 = exs([(0, 200), (2000, 2200), (4000, 4400)])
    nov = exs([(0, 200), (1000, 1150), (1990, 2200), (4000, 4400)])
    g = Gene(gid, chrom, strand)
    g.transcripts.append(Transcript(gid + ".t1", gid, chrom, strand, t1, True, "weakly-covered-annotated"))
    g.transcripts.append(Transcript(gid + ".t2", gid, chrom, strand, t2, True, "annotated"))
    g.hidden.append(Transcript(gid + ".h1", gid, chrom, strand, nov, False, "novel-site-10bp-from-a-weak-annotated-one"))
    for t in g.transcripts + g.hidden:
        for intr in t.introns:
            w.plant_sites(chrom, intr, strand)
    w.genes.append(g)
    tail = dict(polya=30) if strand == "+" else dict(polyt=30, flag=16)
    for t, n in ((g.transcripts[0], 3), (g.transcripts[1], 5), (g.hidden[0], 10)):
        for _ in range(n):
            w.make_read(chrom, list(t.exons), truth={"src": t.id, "class": "exact"}, **tail)
    return g, p + span


def near_site_novel_locus(w, gid, chrom, p, strand):
    """t1 = e1..e5, t2 = e1-e3-e5 (annotated); the unannotated isoform e1-e2-e3-e5' is a new combination of annotated introns except
    that its last junction (first for '-') sits 3 bp away from the annotated site of t2's intron: that intron is unannotated, although it
    lies within every matching tolerance of an annotated one."""
    e = [(p, p + 300), (p + 900, p + 1200), (p + 1800, p + 2000), (p + 2600, p + 2900), (p + 3500, p + 3900)]
    t1 = list(e)
    t2 = [e[0], e[2], e[4]]
    if strand == "+":
        nov = [e[0], e[1], e[2], (e[4][0] - 3, e[4][1])]      # the read intron is the SHORTER one: its site is kept as aligned
    else:
        nov = [(e[0][0], e[0][1] + 3), e[2], e[3], e[4]]
    g = Gene(gid, chrom, strand)
    g.transcripts.append(Transcript(gid + ".t1", gid, chrom, strand, t1, True, "near-site-host"))
    g.transcripts.append(Transcript(gid + ".t2", gid, chrom, strand, t2, True, "near-site-host"))
    g.hidden.append(Transcript(gid + ".h1", gid, chrom, strand, nov, False, "near-site-novel"))
    for t in g.transcripts + g.hidden:
        for intr in t.introns:
            w.plant_sites(chrom, intr, strand)
    w.genes.append(g)
    return g, p + 3900


def low_coverage_novel_locus(w, gid, chrom, p, strand):
    """T1 = E1-E2-E3-E4 (170 reads), T2 = E1-E3-E5 (6 reads), 3 reads of the unannotated combination E1-E2-E3-E5 (below the relative
    coverage cut-off of a novel model) and 2 partial reads E1'-E2-E3' compatible with T1 and the novel combination only."""
    e = [(p, p + 300), (p + 900, p + 1150), (p + 1800, p + 2100), (p + 2700, p + 3000), (p + 3600, p + 3900)]
    if strand == "-":
        e = sorted((2 * p + 3900 - b_, 2 * p + 3900 - a_) for a_, b_ in e)
        t1, t2, nov = [e[1], e[2], e[3], e[4]], [e[0], e[2], e[4]], [e[0], e[2], e[3], e[4]]
        part = [(e[2][0] + 40, e[2][1]), e[3], (e[4][0], e[4][1] - 60)]
    else:
        t1, t2, nov = [e[0], e[1], e[2], e[3]], [e[0], e[2], e[4]], [e[0], e[1], e[2], e[4]]
        part = [(e[0][0] + 60, e[0][1]), e[1], (e[2][0], e[2][1] - 40)]
    g = Gene(gid, chrom, strand)
    g.transcripts.append(Transcript(gid + ".t1", gid, chrom, strand, t1, True, "high-coverage"))
    g.transcripts.append(Transcript(gid + ".t2", gid, chrom, strand, t2, True, "low-coverage"))
    g.hidden.append(Transcript(gid + ".h1", gid, chrom, strand, nov, False, "novel-below-relative-coverage"))
    for t in g.transcripts + g.hidden:
        for intr in t.introns:
            w.plant_sites(chrom, intr, strand)
    w.genes.append(g)
    tail = {"polya": 30} if strand == "+" else {"polyt": 30}
    fl = 0 if strand == "+" else 16
    for ex, n, cls in ((t1, 170, "t1"), (t2, 6, "t2"), (nov, 3, "novel-combination")):
        for _ in range(n):
            w.make_read(chrom, list(ex), flag=fl, truth={"src": gid, "class": cls}, **tail)
    for _ in range(2):
        w.make_read(chrom, list(part), flag=fl, truth={"src": gid, "class": "partial-compatible-with-t1-and-novel"})
    return g, p + 3900


def gene_valley_locus(w, gid, chrom, p, strand):
    """Four-exon gene with a 36-kb middle intron; nested reads over exons 1-2 and 3-4 (3' ends in different 256-bp bins), full-length
    reads bridging the coverage-1 stretch: the cluster is longer than 32 kb and is processed in two regions."""
    rng = w.rng
    gx = [(p, p + 900), (p + 2000, p + 2900), (p + 38900, p + 39800), (p + 41400, p + 42300)]
    g = Gene(gid, chrom, strand)
    g.transcripts.append(Transcript(gid + ".t1", gid, chrom, strand, list(gx), True, "gene-over-valley"))
    for intr in g.transcripts[0].introns:
        w.plant_sites(chrom, intr, strand)
    w.genes.append(g)
    for k in range(14):
        w.make_read(chrom, [(gx[0][0] + 60 * (k % 7), gx[0][1]), (gx[1][0], gx[1][1] - 55 * k)], truth={"src": gid + ".t1", "class": "left-part"})
        w.make_read(chrom, [(gx[2][0] + 60 * (k % 7), gx[2][1]), (gx[3][0], gx[3][1] - 55 * k)], truth={"src": gid + ".t1", "class": "right-part"})
    # ONE bridging read (a coverage valley is a stretch covered by at most one read); it starts inside the second exon, i.e. it is stored
    # after most reads of the left part
    w.make_read(chrom, [(gx[1][0] + 120, gx[1][1]), gx[2], (gx[3][0], gx[3][1] - 5)], truth={"src": gid + ".t1", "class": "bridge"})
    return g, p + 42300


ZOO_ALL = ("ambiguous_only", "twins", "contested", "intronic", "apa", "alt_terminal", "shifted_site", "shared_chain", "same_coords",
           "one_bp_exon", "lowmapq_two_exon", "mono_only", "gap_gene", "gene_valley", "odd_chroms",
           "near_site_novel", "low_cov_novel", "two_exon_alt_polya", "dense_two_exon", "antisense_shared_exon", "micro_exon_sibling", "mixed_strand_gene", "two_cluster", "early_end_isoform", "noncanonical_novel", "two_genes_shared_introns", "weak_known_sibling", "nested_gene")
ZOO_NO_TIES = tuple(z for z in ZOO_ALL if z != "twins")


def add_zoo(w, parts=ZOO_ALL):
    """Adds the special loci (with their reads) wherever a chromosome has room.  Returns the names of the parts placed."""
    rng = w.rng
    placed = set()
    if "same_coords" in parts and len(w.chrom_order) >= 2:
        common = max(g.end for g in w.genes) + 6000       # no neighbour close enough to be joined into the region on any sequence
        if common + 12000 < min(w.chrom_len(c) for c in w.chrom_order):
            x, _ = w.make_gene("X1", w.chrom_order[0], common, rng.choice("+-"), n_exons=5, n_iso=2, hidden_kinds=("nnic_skip",))
            _reads_for(w, x)
            for ci, chrom in enumerate(w.chrom_order[1:]):
                if ci % 3 == 2:
                    # same exon coordinates, OPPOSITE strand (splice sites canonical for that strand): nothing learnt about an intron
                    # (strand, canonical sites, annotated or not) on one chromosome is true on another one
                    other = "-" if x.strand == "+" else "+"
                    c = Gene("X%d" % (ci + 2), chrom, other)
                    for k, t in enumerate(x.transcripts):
                        c.transcripts.append(Transcript("%s.t%d" % (c.id, k + 1), c.id, chrom, other, list(t.exons), True, t.kind))
                    for k, t in enumerate(x.hidden):
                        c.hidden.append(Transcript("%s.h%d" % (c.id, k + 1), c.id, chrom, other, list(t.exons), False, t.kind))
                    for t in c.transcripts + c.hidden:
                        for intr in t.introns:
                            w.plant_sites(chrom, intr, other)
                    w.genes.append(c)
                else:
                    c = clone_gene(w, x, "X%d" % (ci + 2), chrom, x.start)
                    if c and ci % 3 == 0 and len(c.transcripts) > 1:
                        # same sequence and coordinates, but the second isoform is NOT annotated on this chromosome
                        for t in c.transcripts[1:]:
                            t.annotated = False
                            c.hidden.append(t)
                        c.transcripts = c.transcripts[:1]
                if c:
                    _reads_for(w, c)
            # multi-mapped reads ALL of whose alignments are uninformative (unspliced, inside the first intron) and lie at the same
            # coordinates on different sequences: the choice among them must not depend on which process handled which sequence
            intr = x.transcripts[0].introns[0]
            if intr[1] - intr[0] > 260:
                for k in range(3):
                    name = w.new_read_name("mmsame")
                    a, b = intr[0] + 40 + 7 * k, intr[0] + 40 + 7 * k + 150
                    # on the first sequence and on those that carry an exact copy of the locus (equal regions: an exact tie)
                    order = [w.chrom_order[0]] + [c_ for ci_, c_ in enumerate(w.chrom_order[1:]) if ci_ % 3 == 1 and c_ in w.chroms and
                                                  any(g_.id.startswith("X") and g_.chrom == c_ for g_ in w.genes)]
                    if k % 2:
                        order = order[1:] + order[:1]       # the primary alignment is not always on the first sequence
                    for j, chrom in enumerate(order):
                        w.make_read(chrom, [(a, b)], name=name, flag=0 if j == 0 else 256, mapq=60,
                                    truth={"multimap": True, "class": "mm-uninformative-same-coordinates"})
                # the longest of these sequences (handled first by a single process) carries extra reads in front of the locus: counters
                # that run per process reach the locus with a higher value there than on the other sequences when each has its own process
                tied = [w.chrom_order[0]] + [c_ for ci_, c_ in enumerate(w.chrom_order[1:]) if ci_ % 3 == 1]
                longest = max(tied, key=w.chrom_len)
                first = min([g_ for g_ in w.genes if g_.chrom == longest and g_.transcripts and g_.end < common], key=lambda g_: g_.start, default=None)
                if first is not None:
                    for _ in range(40):
                        w.read_from_transcript(first.transcripts[0], mode="full", jitter=0, polya=True, flag=0 if first.strand == "+" else 16)
            placed.add("same_coords")
    if "odd_chroms" in parts and "chrU" not in w.chroms:
        # a sequence with reads but without annotation, one with annotation but without reads, one with neither
        n_before = len(w.chrom_order)
        w.add_chrom("chrU", 30000)
        for k in range(6):
            ex = [(2000 + 10 * k, 2400), (3000, 3300), (4000, 4400 - 5 * k)]
            for i in range(2):
                w.plant_sites("chrU", (ex[i][1] + 1, ex[i + 1][0] - 1), "+")
            w.make_read("chrU", ex, polya=30, truth={"class": "read-on-unannotated-sequence"})
        w.add_chrom("chrE", 20000)
        w.make_gene("GE1", "chrE", 2000, "+", n_exons=4, n_iso=2)
        w.add_chrom("chrN", 9000)
        # two short sequences that carry nothing but one unannotated UNSPLICED locus with tailed reads each (spike-in / organelle style)
        for cname, st_ in (("chrP", "+"), ("chrQ", "-")):
            w.add_chrom(cname, 8000)
            for k in range(8):
                ex = [(3001 + (3 * k if st_ == "-" else 0), 3800 - (3 * k if st_ == "+" else 0))]
                if st_ == "+":
                    ex = [(3001 + 2 * k, 3800)]
                    w.make_read(cname, ex, polya=30, truth={"class": "unspliced-tailed-read-on-bare-sequence"})
                else:
                    ex = [(3001, 3800 - 2 * k)]
                    w.make_read(cname, ex, polyt=30, flag=16, truth={"class": "unspliced-tailed-read-on-bare-sequence"})
        # a short sequence whose genes touch both of its ends: first exon from base 3, last exon up to the last base but two
        w.add_chrom("chrS", 7000)
        for gid, st_, exons in (("ZS1", "+", [(3, 300), (701, 900), (1401, 1700), (2301, 2600)]),
                                ("ZS2", "-", [(4001, 4300), (4801, 5000), (5601, 5900), (6601, 6998)])):
            g = Gene(gid, "chrS", st_)
            g.transcripts.append(Transcript(gid + ".t1", gid, "chrS", st_, exons, True, "edge-of-sequence"))
            g.hidden.append(Transcript(gid + ".h1", gid, "chrS", st_, [exons[0], exons[2], exons[3]], False, "edge-of-sequence-novel"))
            for t in g.transcripts + g.hidden:
                for intr in t.introns:
                    w.plant_sites("chrS", intr, st_)
            w.genes.append(g)
            _reads_for(w, g, n_ann=5, n_hidden=7, modes=("full",))
            for k in range(3):
                # one junction 9 bp off: canonical only by chance
                ex = [exons[0], (exons[1][0], exons[1][1] - 9), exons[2], exons[3]]
                w.make_read("chrS", ex, polya=25 if st_ == "+" else 0, polyt=25 if st_ == "-" else 0, flag=0 if st_ == "+" else 16,
                            truth={"class": "edge-of-sequence-odd-junction"})
        placed.add("odd_chroms")
        chroms_for_loci = w.chrom_order[:n_before]
    else:
        chroms_for_loci = list(w.chrom_order)
    for ci, chrom in enumerate(chroms_for_loci):
        def room(n):
            return _free_pos(w, chrom) + n < w.chrom_len(chrom)
        tag = "%d" % (ci + 1)
        if "ambiguous_only" in parts and room(6500):
            ambiguous_only_locus(w, "ZAMB" + tag, chrom, _free_pos(w, chrom), "+-"[ci % 2])
            placed.add("ambiguous_only")
        if "twins" in parts and room(9500):
            add_twin_loci(w, per_chrom=1, chroms=[chrom], prefix="ZNG", offsets=((2, 4, 6, 3)[ci % 4],))
            placed.add("twins")
        if "contested" in parts and room(5000):
            gs, _ = contested_intron_locus(w, "ZV" + tag, chrom, _free_pos(w, chrom), "+-"[ci % 2], ci % 3 != 1)
            for g in gs:
                _reads_for(w, g, n_ann=5, n_hidden=24, modes=("full",))
            placed.add("contested")
        if "intronic" in parts and room(8500):
            intronic_novel_loci(w, ("slc25a%s", "ABCB%s", "zgc:11%s")[ci % 3] % tag, chrom, _free_pos(w, chrom, 3000), "+-"[(ci + 1) % 2])
            placed.add("intronic")
        if "apa" in parts and room(9000):
            alt_polya_locus(w, "ZAPA" + tag, chrom, _free_pos(w, chrom, 3000), "+-"[ci % 2], ext=(1200, 700, 2000)[ci % 3])
            placed.add("apa")
        if "alt_terminal" in parts and room(6500):
            g, _ = alt_terminal_locus(w, "ZALT" + tag, chrom, _free_pos(w, chrom), "+-"[ci % 2], "LR"[(ci // 2) % 2], k=ci)
            _reads_for(w, g, n_hidden=10)
            placed.add("alt_terminal")
        if "shifted_site" in parts and room(6000):
            g, _ = shifted_site_locus(w, "ZSH" + tag, chrom, _free_pos(w, chrom), "+-"[(ci + 1) % 2], "LR"[ci % 2])
            _reads_for(w, g, n_hidden=6)
            placed.add("shifted_site")
        if "shared_chain" in parts and room(6000):
            g, _ = shared_chain_locus(w, "ZSC" + tag, chrom, _free_pos(w, chrom), "+-"[ci % 2])
            _reads_for(w, g, modes=("full", "full", "trunc5", "trunc3"))
            placed.add("shared_chain")
        if "one_bp_exon" in parts and room(6500):
            one_bp_exon_locus(w, "Z1BP" + tag, chrom, _free_pos(w, chrom), "+-"[ci % 2])
            placed.add("one_bp_exon")
        if "two_exon_alt_polya" in parts and room(6000):
            two_exon_alt_polya_locus(w, "ZTP" + tag, chrom, _free_pos(w, chrom, 3000), "+-"[ci % 2])
            placed.add("two_exon_alt_polya")
        if "lowmapq_two_exon" in parts and room(5000):
            lowmapq_two_exon_locus(w, "ZLQ" + tag, chrom, _free_pos(w, chrom), "+-"[(ci + 1) % 2])
            placed.add("lowmapq_two_exon")
        if "mono_only" in parts and room(9000):
            mono_only_locus(w, "ZMO" + tag, chrom, _free_pos(w, chrom, 4000), "+-"[ci % 2])
            placed.add("mono_only")
        if "near_site_novel" in parts and room(6500):
            g, _ = near_site_novel_locus(w, "ZNS" + tag, chrom, _free_pos(w, chrom), "+-"[ci % 2])
            _reads_for(w, g, n_ann=4, n_hidden=12, modes=("full",))
            placed.add("near_site_novel")
        if "low_cov_novel" in parts and ci == 2 % max(1, len(chroms_for_loci)) and room(6500):
            low_coverage_novel_locus(w, "ZLC" + tag, chrom, _free_pos(w, chrom), "+-"[ci % 2])
            placed.add("low_cov_novel")
        if "dense_two_exon" in parts and chrom == max(chroms_for_loci, key=w.chrom_len) and room(5000):
            # on the longest sequence (handled first)
            dense_two_exon_locus(w, "ZDN" + tag, chrom, _free_pos(w, chrom, 3000), "+-"[ci % 2])
            placed.add("dense_two_exon")
        if "micro_exon_sibling" in parts and room(7500):
            micro_exon_sibling_locus(w, "ZMX" + tag, chrom, _free_pos(w, chrom), "+-"[ci % 2], ("after", "before")[(ci // 2) % 2], abut=ci % 3 == 1, near=ci % 3 == 2)
            placed.add("micro_exon_sibling")
        if "two_cluster" in parts and ci % 2 == 0 and room(15000):
            # one reference isoform seen from two separate read clusters (5' and 3' fragments on either side of a long intron)
            two_cluster_gene(w, "ZTC" + tag, chrom, _free_pos(w, chrom, 3000), "+-"[(ci // 2) % 2], n_iso=1 + (ci // 2) % 2)
            placed.add("two_cluster")
        if "noncanonical_novel" in parts and ci % 2 == 0 and room(8000):
            noncanonical_novel_locus(w, "ZNC" + tag, chrom, _free_pos(w, chrom, 3000))
            placed.add("noncanonical_novel")
        if "two_genes_shared_introns" in parts and room(8500):
            two_genes_shared_introns_locus(w, "ZTG" + tag, chrom, _free_pos(w, chrom), "+-"[ci % 2])
            placed.add("two_genes_shared_introns")
        if "weak_known_sibling" in parts and room(8000):
            weak_known_sibling_locus(w, "ZWK" + tag, chrom, _free_pos(w, chrom), "+-"[ci % 2])
            placed.add("weak_known_sibling")
        if "nested_gene" in parts and ci % 2 == 1 and room(12000):
            nested_gene_locus(w, "ZNE" + tag, chrom, _free_pos(w, chrom, 3000), "+-"[(ci // 2) % 2])
            placed.add("nested_gene")
        if "early_end_isoform" in parts and room(6500):
            early_end_isoform_locus(w, "ZEE" + tag, chrom, _free_pos(w, chrom), "+-"[ci % 2])
            placed.add("early_end_isoform")
        if "mixed_strand_gene" in parts and ci % 2 == 1 and room(7500):
            mixed_strand_gene_locus(w, "ZMG" + tag, chrom, _free_pos(w, chrom))
            placed.add("mixed_strand_gene")
        if "antisense_shared_exon" in parts and ci % 2 == 0 and room(8000):
            antisense_shared_exon_locus(w, "ZAS" + tag, chrom, _free_pos(w, chrom))
            placed.add("antisense_shared_exon")
        if "gap_gene" in parts and ci == 1 and room(36000):
            gap_gene_locus(w, "ZGAP" + tag, chrom, _free_pos(w, chrom, 4000), "+-"[ci % 2])
            placed.add("gap_gene")
        if "gene_valley" in parts and ci == 0 and room(48000):
            gene_valley_locus(w, "ZVAL" + tag, chrom, _free_pos(w, chrom, 4000), "+-"[ci % 2])
            placed.add("gene_valley")
    return placed


def rename_chroms(w, mapping):
    """Renames chromosomes everywhere (sequence table, genes, transcripts, reads)."""
    w.chroms = {mapping.get(k, k): v for k, v in w.chroms.items()}
    w.chrom_order = [mapping.get(k, k) for k in w.chrom_order]
    for g in w.genes:
        g.chrom = mapping.get(g.chrom, g.chrom)
        for t in g.transcripts + g.hidden:
            t.chrom = mapping.get(t.chrom, t.chrom)
    for r in w.reads:
        if r.chrom is not None:
            r.chrom = mapping.get(r.chrom, r.chrom)
            if isinstance(r.truth, dict) and "chr" in r.truth:
                r.truth["chr"] = mapping.get(r.truth["chr"], r.truth["chr"])
    return w
