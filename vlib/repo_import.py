"""Import the IsoQuant tree under test (VERIF_REPO, default /repo) into this process."""
import importlib
import os
import sys

REPO = os.environ.get("VERIF_REPO", "/repo")
VERIF = os.path.dirname(os.path.dirname(os.path.abspath(__file__)))
DEPS = os.path.join(VERIF, ".deps")


def setup_path():
    if REPO not in sys.path:
        sys.path.insert(0, REPO)
    if os.path.isdir(DEPS) and DEPS not in sys.path:
        sys.path.append(DEPS)
    sys.dont_write_bytecode = True


def mod(name):
    setup_path()
    return importlib.import_module(name)


def fresh_args(argv, home):
    """Build the tree's own `args` (presets etc.) the way isoquant.main does, without running the pipeline."""
    setup_path()
    os.environ["HOME"] = home
    os.makedirs(home, exist_ok=True)
    import isoquant
    old = sys.argv
    sys.argv = ["isoquant.py"] + list(argv)
    try:
        args, parser = isoquant.parse_args(list(argv))
        args = isoquant.check_and_load_args(args, parser)
        isoquant.create_output_dirs(args)
        isoquant.set_additional_params(args)
    finally:
        sys.argv = old
    return args
