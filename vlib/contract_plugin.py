"""pytest plugin: switch the C19 contracts on before the repository's test modules are imported,
dump evaluation counters and recorded violations at the end (VERIF_CONTRACT_OUT)."""
import json
import os


def pytest_configure(config):
    from vlib import contracts19
    contracts19.install()


def pytest_sessionfinish(session, exitstatus):
    from vlib import contracts19 as C
    out = os.environ.get("VERIF_CONTRACT_OUT")
    if out:
        with open(out, "w") as f:
            json.dump({"counts": C.COUNTS, "violations": C.VIOLATIONS[:200], "exitstatus": int(exitstatus)}, f)
