"""Runtime monitors installed by launch.py inside the IsoQuant process (and inherited by forked workers).

install_pre(names)  : before `import isoquant`  (patch defining modules so that `from x import f` binds wrappers)
install_post(names, isoquant_module): after import.
Each process appends JSON lines to $VERIF_EVENTS/<pid>.jsonl (one writer per file).
"""
import builtins
import functools
import gzip
import json
import os
import random
import sys
import time

_CFG = json.loads(os.environ.get("VERIF_MON_CFG", "{}") or "{}")
_EVDIR = os.environ.get("VERIF_EVENTS")
_fh = None
_fh_pid = None
_real_open = builtins.open


def emit(kind, **kw):
    global _fh, _fh_pid
    if not _EVDIR:
        return
    pid = os.getpid()
    if _fh is None or _fh_pid != pid:
        _fh = _real_open(os.path.join(_EVDIR, "%d.jsonl" % pid), "a")
        _fh_pid = pid
    kw["k"] = kind
    kw["pid"] = pid
    kw["t"] = time.monotonic()
    _fh.write(json.dumps(kw, default=str) + "\n")
    _fh.flush()


def _caller(depth=2):
    f = sys._getframe(depth)
    # first frame inside the repo
    repo = os.environ.get("VERIF_REPO", "/repo")
    while f is not None:
        fn = f.f_code.co_filename
        if fn.startswith(repo):
            return "%s:%s" % (os.path.basename(fn), f.f_code.co_name)
        f = f.f_back
    return "?"


# ----------------------------------------------------------------------------- crash injection (C07)

class _Crash:
    def __init__(self):
        self.n = 0
        self.crash_at = _CFG.get("crash_at")       # int or None
        self.root = _CFG.get("crash_root")         # only mutations under this dir are counted
        self.main_pid = os.getpid()
        self.kill_group = _CFG.get("crash_killpg", False)

    def hit(self, op, path):
        try:
            path = os.fspath(path)
        except TypeError:
            return
        if isinstance(path, bytes):
            path = path.decode()
        ap = os.path.abspath(path)
        if self.root and not ap.startswith(self.root) and not ap.endswith(".gffutils") and not \
                (_CFG.get("crash_count_index") and (".fai" in os.path.basename(ap) or ".gzi" in os.path.basename(ap))):
            # outside the output folder only the scratch files of the annotation converter count (they are written in the middle of the
            # conversion, when the database in the output folder is half built) and, on request, the index files of the reference
            return
        if os.getpid() != self.main_pid:
            # worker process: mutations are logged but not numbered in the global order; optionally the whole
            # process group is killed when a worker reaches its k-th own mutation (multi-process kill points)
            if getattr(self, "wpid", None) != os.getpid():
                self.wpid = os.getpid()
                self.wn = 0
            self.wn += 1
            emit("mut", n=None, wn=self.wn, op=op, path=ap, fn=_caller(3))
            k = _CFG.get("crash_worker_at")
            if k is not None and self.wn == k:
                emit("crash", n=None, wn=self.wn, op=op, path=ap, fn=_caller(3))
                import signal
                os.killpg(os.getpgid(0), signal.SIGKILL)
            return
        self.n += 1
        emit("mut", n=self.n, op=op, path=ap, fn=_caller(3), line_n=getattr(self, "lines", {}).get("n"))
        cp = _CFG.get("crash_path")        # alternative addressing: the k-th mutation whose file name contains this text
        if cp and cp in os.path.basename(ap):
            self.np = getattr(self, "np", 0) + 1
        if (self.crash_at is not None and self.n == self.crash_at) or (cp and cp in os.path.basename(ap) and self.np == _CFG.get("crash_path_k", 1)):
            if _CFG.get("crash_after"):
                # the mutation is carried out first; the process dies immediately after it (see die_if_pending)
                self.pending = (op, ap, _caller(3))
                return
            emit("crash", n=self.n, op=op, path=ap, fn=_caller(3))
            self.die()

    def die(self):
        if _fh:
            _fh.flush()
        if self.kill_group:
            import signal
            os.killpg(os.getpgid(0), signal.SIGKILL)
        os._exit(137)

    def die_if_pending(self):
        pend = getattr(self, "pending", None)
        if pend:
            emit("crash", n=self.n, op=pend[0], path=pend[1], fn=pend[2], after=True)
            self.die()


def _install_crash():
    c = _Crash()
    real_open = builtins.open
    real_gzip_open = gzip.open
    real_remove = os.remove

    def is_write(mode):
        return any(ch in mode for ch in "wax+")

    @functools.wraps(real_open)
    def open_(file, mode="r", *a, **kw):
        if isinstance(mode, str) and is_write(mode) and not isinstance(file, int):
            c.hit("open:" + mode.replace("t", ""), file)
            r = real_open(file, mode, *a, **kw)
            c.die_if_pending()
            return r
        return real_open(file, mode, *a, **kw)

    @functools.wraps(real_gzip_open)
    def gzip_open(filename, mode="rb", *a, **kw):
        if isinstance(mode, str) and is_write(mode) and isinstance(filename, (str, bytes, os.PathLike)):
            c.hit("gzip:" + mode.replace("t", ""), filename)
        # gzip.open calls builtins.open internally through GzipFile -> avoid double counting
        saved = builtins.open
        builtins.open = real_open
        try:
            r = real_gzip_open(filename, mode, *a, **kw)
        finally:
            builtins.open = saved
        c.die_if_pending()
        return r

    @functools.wraps(real_remove)
    def remove(path, *a, **kw):
        c.hit("remove", path)
        r = real_remove(path, *a, **kw)
        c.die_if_pending()
        return r

    real_replace = os.replace
    real_rename = os.rename

    def renamer(real):
        @functools.wraps(real)
        def rename(src, dst, *a, **kw):
            # a file that gets its final name (the complete-then-rename idiom): the destination is what a resumed run looks at
            c.hit("rename", dst)
            r = real(src, dst, *a, **kw)
            c.die_if_pending()
            return r
        return rename

    builtins.open = open_
    gzip.open = gzip_open
    os.remove = remove
    os.unlink = remove
    os.replace = renamer(real_replace)
    os.rename = renamer(real_rename)

    if _CFG.get("crash_lines"):
        # source-free failpoints: 'line' events inside the repository's own code are counted (main process, main thread); the process
        # dies when the count reaches crash_line_at.  The count at which .params is opened is logged (crash points before it are out of scope)
        import atexit
        repo = os.environ.get("VERIF_REPO", "/repo")
        state = {"n": 0}
        c.lines = state
        target = _CFG.get("crash_line_at")
        main_pid = os.getpid()

        orchestration = ("dataset_processor.py", "file_utils.py", "isoquant.py", "read_groups.py", "gtf2db.py", "input_data_storage.py")
        fn_stats = {}

        def local(frame, event, arg):
            if event == "line":
                state["n"] += 1
                if target is None:
                    # counting run: first / last line event per function of the orchestration layer (used to stratify the failpoints)
                    co = frame.f_code
                    base = os.path.basename(co.co_filename)
                    if base in orchestration:
                        st = fn_stats.get((base, co.co_name))
                        if st is None:
                            fn_stats[(base, co.co_name)] = [state["n"], state["n"], 1]
                        else:
                            st[1] = state["n"]
                            st[2] += 1
                if state["n"] == target and os.getpid() == main_pid:
                    emit("crash", n=None, line_n=state["n"], op="line", path="%s:%d" % (os.path.basename(frame.f_code.co_filename), frame.f_lineno),
                         fn="%s:%s" % (os.path.basename(frame.f_code.co_filename), frame.f_code.co_name))
                    c.die()
            return local

        def tracer(frame, event, arg):
            if frame.f_code.co_filename.startswith(repo):
                return local
            return None
        sys.settrace(tracer)
        atexit.register(lambda: os.getpid() == main_pid and emit("line_total", n=state["n"],
                                                                   functions=[[k[0], k[1]] + v for k, v in sorted(fn_stats.items())]))


# ----------------------------------------------------------------------------- schedule (C06)

def _install_schedule_pre():
    import src.dataset_processor as dp
    seed = _CFG.get("sched_seed", 0)
    maxd = _CFG.get("sched_max_delay", 0.0)

    def wrap(fn, stage, chr_arg):
        @functools.wraps(fn)
        def w(*a, **kw):
            chr_id = a[chr_arg]
            rng = random.Random("%s/%s/%s" % (seed, stage, chr_id))
            d1 = rng.random() * maxd
            d2 = rng.random() * maxd
            emit("task_start", stage=stage, chr=chr_id)
            if d1:
                time.sleep(d1)
            r = fn(*a, **kw)
            if d2:
                time.sleep(d2)
            emit("task_end", stage=stage, chr=chr_id)
            return r
        return w
    dp.collect_reads_in_parallel = wrap(dp.collect_reads_in_parallel, "collect", 1)
    dp.construct_models_in_parallel = wrap(dp.construct_models_in_parallel, "construct", 1)


# ----------------------------------------------------------------------------- shared cache files (C20)

def _install_cache():
    real_open = builtins.open
    home = os.environ.get("HOME", "")
    cfgdir = os.path.join(home, ".config", "IsoQuant")
    seed = _CFG.get("cache_seed", 0)
    maxd = _CFG.get("cache_max_delay", 0.0)
    rng = random.Random("%s/%s" % (seed, os.environ.get("VERIF_RUN_ID", "")))
    real_load = json.load
    real_dump = json.dump

    @functools.wraps(real_open)
    def open_(file, mode="r", *a, **kw):
        try:
            p = os.path.abspath(os.fspath(file)) if not isinstance(file, int) else ""
        except TypeError:
            p = ""
        if p.startswith(cfgdir):
            if any(ch in mode for ch in "wa+x"):
                # delay between the preceding load and the truncating re-open
                if maxd:
                    time.sleep(rng.random() * maxd)
                emit("cache_open_w", path=os.path.basename(p))
                existed = os.path.exists(p)
                f = real_open(file, mode, *a, **kw)
                # delay between truncation and dump
                if maxd:
                    time.sleep(rng.random() * maxd)
                # a longer, fixed pre-emption right after a file of the cache folder was CREATED (it exists and is still empty)
                if not existed and _CFG.get("cache_create_delay"):
                    time.sleep(_CFG["cache_create_delay"])
                return f
            emit("cache_open_r", path=os.path.basename(p))
        elif _CFG.get("index_write_delay") and any(ch in mode for ch in "wa+x") and (".fai" in os.path.basename(p) or ".gzi" in os.path.basename(p)):
            # the reference index (written next to the reference, which runs may share): pre-empted right after the file was opened for writing
            f = real_open(file, mode, *a, **kw)
            emit("index_open_w", path=os.path.basename(p))
            time.sleep(_CFG["index_write_delay"])
            return f
        return real_open(file, mode, *a, **kw)

    @functools.wraps(real_load)
    def load(fp, *a, **kw):
        name = getattr(fp, "name", "")
        if isinstance(name, str) and os.path.abspath(name).startswith(cfgdir):
            try:
                r = real_load(fp, *a, **kw)
                emit("cache_load", path=os.path.basename(name), ok=True, n=len(r) if hasattr(r, "__len__") else -1)
                return r
            except Exception as e:
                emit("cache_load", path=os.path.basename(name), ok=False, err=repr(e)[:200])
                raise
        return real_load(fp, *a, **kw)

    @functools.wraps(real_dump)
    def dump(obj, fp, *a, **kw):
        name = getattr(fp, "name", "")
        r = real_dump(obj, fp, *a, **kw)
        if isinstance(name, str) and os.path.abspath(name).startswith(cfgdir):
            emit("cache_dump", path=os.path.basename(name), n=len(obj) if hasattr(obj, "__len__") else -1)
        return r

    real_makedirs = os.makedirs

    @functools.wraps(real_makedirs)
    def makedirs(name, *a, **kw):
        # the per-user folder itself: a process may be pre-empted between deciding to create it and creating it
        try:
            p = os.path.abspath(os.fspath(name))
        except TypeError:
            p = ""
        if p == cfgdir or p == os.path.dirname(cfgdir) or p in _CFG.get("mkdir_delay_paths", ()):
            emit("cache_mkdir", path=os.path.basename(p), existed=os.path.isdir(p))
            if maxd:
                time.sleep(rng.random() * maxd)
        return real_makedirs(name, *a, **kw)

    real_remove_ = os.remove

    @functools.wraps(real_remove_)
    def remove_(path, *a, **kw):
        # a file of the per-user folder that is REMOVED (e.g. to make room for its new version): pre-empted right after it is gone
        r = real_remove_(path, *a, **kw)
        try:
            p = os.path.abspath(os.fspath(path))
        except TypeError:
            p = ""
        if p.startswith(cfgdir):
            emit("cache_remove", path=os.path.basename(p))
            if maxd:
                time.sleep(rng.random() * maxd)
        return r

    builtins.open = open_
    json.load = load
    json.dump = dump
    os.makedirs = makedirs
    os.remove = remove_
    os.unlink = remove_


# ----------------------------------------------------------------------------- id allocation log (C17)

def _install_ids_pre():
    import src.id_policy as ip
    real_get = ip.FeatureIdStorage.get_id

    def get_id(self, chr_id, feature, strand=None, *a, **kw):
        r = real_get(self, chr_id, feature, strand, *a, **kw) if strand is not None else real_get(self, chr_id, feature, *a, **kw)
        emit("get_id", chr=chr_id, feature=list(feature) if isinstance(feature, (list, tuple)) else feature,
             strand=strand, id=r, storage=id(self))
        return r
    ip.FeatureIdStorage.get_id = get_id
    real_inc = ip.ExcludingIdDistributor.increment

    def increment(self, *a, **kw):
        r = real_inc(self, *a, **kw)
        emit("tid", value=r, dist=id(self))
        return r
    ip.ExcludingIdDistributor.increment = increment


# ----------------------------------------------------------------------------- canonical memo log (C18)

def _install_canon_pre():
    import src.assignment_io as aio
    real = aio.IOSupport.check_sites_are_canonical

    def check(self, introns, gene_info, strand, *a, **kw):
        r = real(self, introns, gene_info, strand, *a, **kw)
        emit("canon", introns=[list(i) for i in introns], strand=strand, res=r, chr=getattr(gene_info, "chr_id", None),
             locus=id(gene_info))
        return r
    aio.IOSupport.check_sites_are_canonical = check


# ----------------------------------------------------------------------------- counter increments (C02/C08)

def _install_counter_pre():
    import src.long_read_counter as lrc
    real_add = lrc.AssignedFeatureCounter.add_read_info
    real_raw = lrc.AssignedFeatureCounter.add_read_info_raw

    def snapshot(self):
        tot = 0.0
        for g in self.feature_counter.values():
            for v in g.data.values():
                tot += v
        return tot

    def add_read_info(self, read_assignment=None):
        before = snapshot(self)
        r = real_add(self, read_assignment)
        after = snapshot(self)
        if read_assignment is not None:
            emit("cnt", file=os.path.basename(self.output_prefix if hasattr(self, "output_prefix") else getattr(self, "output_counts_file_name", "?")),
                 read=read_assignment.read_id, inc=after - before,
                 atype=read_assignment.assignment_type.name, grouped=not self.ignore_read_groups)
        return r

    def add_read_info_raw(self, read_id, feature_ids, group_id=None, *a, **kw):
        before = snapshot(self)
        r = real_raw(self, read_id, feature_ids, group_id, *a, **kw)
        after = snapshot(self)
        emit("cnt_raw", file=os.path.basename(getattr(self, "output_counts_file_name", "?")), read=read_id,
             inc=after - before, feats=list(feature_ids), grouped=not self.ignore_read_groups)
        return r
    lrc.AssignedFeatureCounter.add_read_info = add_read_info
    lrc.AssignedFeatureCounter.add_read_info_raw = add_read_info_raw


# ----------------------------------------------------------------------------- multimap resolution log (C08)

def _install_resolve_pre():
    import src.multimap_resolver as mr
    real = mr.MultimapResolver.resolve

    def summ(a):
        return {"id": a.assignment_id, "chr": a.chr_id, "type": a.assignment_type.name,
                "gtype": a.gene_assignment_type.name if hasattr(a.gene_assignment_type, "name") else str(a.gene_assignment_type),
                "mm": bool(a.multimapper), "gene_list": sorted(a.genes), "iso": sorted(a.isoforms), "start": a.start, "end": a.end,
                "pen": a.penalty_score, "read": a.read_id, "region": list(a.genomic_region)}

    def resolve(self, assignment_list):
        before = [summ(a) for a in assignment_list]
        r = real(self, assignment_list)
        emit("resolve", before=before, after=[summ(a) for a in r])
        return r
    mr.MultimapResolver.resolve = resolve


# ----------------------------------------------------------------------------- carried state snapshots (C10)

def _install_state_pre():
    import src.dataset_processor as dp
    import src.graph_based_model_construction as gb
    import src.transcript_printer as tp
    import src.multimap_resolver as mr
    real = dp.DatasetProcessor.process_sample

    def process_sample(self, sample):
        snap = {
            "detected_known_isoforms": len(getattr(gb.GraphBasedModelConstructor, "detected_known_isoforms", ())),
            "extended_transcript_ids": len(getattr(gb.GraphBasedModelConstructor, "extended_transcript_ids", ())),
            "alignment_stat": {str(k): v for k, v in self.alignment_stat_counter.stats_dict.items()},
        }
        emit("sample_start", prefix=sample.prefix, state=snap)
        return real(self, sample)
    dp.DatasetProcessor.process_sample = process_sample


# ----------------------------------------------------------------------------- region splitting (C05)

def _install_split_pre():
    import src.alignment_processor as ap
    real = ap.AlignmentCollector.split_coverage_regions

    def split(genomic_region, alignment_storage):
        r = real(genomic_region, alignment_storage)
        if len(r) != 1 or r[0] != genomic_region:
            emit("split", region=list(genomic_region), n_reads=alignment_storage.get_read_count(),
                 bins=len(alignment_storage.coverage_dict), out=[list(x) for x in r])
        return r
    ap.AlignmentCollector.split_coverage_regions = staticmethod(split)


# ----------------------------------------------------------------------------- BAM merge order (C12)

def _install_merge_pre():
    import src.alignment_processor as ap
    real = ap.BAMOnlineMerger.get

    def get(self):
        last = None
        ties = 0
        n = 0
        per_file = {}
        for i, a in real(self):
            key = (a.reference_start, a.reference_end)
            if last is not None and key == last[0] and i != last[1]:
                ties += 1
            last = (key, i)
            n += 1
            per_file[i] = per_file.get(i, 0) + 1
            yield i, a
        if len(self.bam_pairs) > 1 or n:
            emit("merge", chr=self.chr_id, records=n, files=len(self.bam_pairs), cross_file_ties=ties,
                 per_file={str(k): v for k, v in per_file.items()})
    ap.BAMOnlineMerger.get = get


# ----------------------------------------------------------------------------- C19 contracts inside pipeline runs

def _install_c19_pre():
    import atexit
    deps = os.path.join(os.path.dirname(os.path.dirname(os.path.abspath(__file__))), ".deps")
    if deps not in sys.path:
        sys.path.append(deps)
    from vlib import contracts19 as C
    C.install()

    def dump():
        emit("c19", counts=dict(C.COUNTS), violations=C.VIOLATIONS[:50])
    atexit.register(dump)
    # forked pool workers leave through os._exit: dump from the task wrappers as well
    import src.dataset_processor as dp
    for name in ("collect_reads_in_parallel", "construct_models_in_parallel"):
        fn = getattr(dp, name)

        def wrap(fn):
            @functools.wraps(fn)
            def w(*a, **kw):
                try:
                    return fn(*a, **kw)
                finally:
                    emit("c19", counts=dict(C.COUNTS), violations=C.VIOLATIONS[:50], partial=True)
            return w
        setattr(dp, name, wrap(fn))


PRE = {"c19": _install_c19_pre, "merge": _install_merge_pre, "schedule": _install_schedule_pre, "ids": _install_ids_pre, "canon": _install_canon_pre,
       "counter": _install_counter_pre, "resolve": _install_resolve_pre, "state": _install_state_pre,
       "split": _install_split_pre}
POST = {"crash": _install_crash, "cache": _install_cache}


def install_pre(names):
    for n in names:
        if n in PRE:
            PRE[n]()


def install_post(names, isoquant_module):
    for n in names:
        if n in POST:
            POST[n]()
