"""Readers for IsoQuant's documented output files (plain or gz)."""
import gzip
import os
import re
from collections import defaultdict, OrderedDict


def _open(path):
    if not os.path.exists(path) and os.path.exists(path + ".gz"):
        path = path + ".gz"
    if path.endswith(".gz"):
        return gzip.open(path, "rt")
    return open(path)


def exists(path):
    return os.path.exists(path) or os.path.exists(path + ".gz")


def parse_exons(s):
    if s in (".", ""):
        return []
    return [tuple(int(x) for x in e.split("-")) for e in s.split(",")]


class Assignment:
    __slots__ = ("read_id", "chr", "strand", "isoform", "gene", "atype", "events", "exons", "info", "raw")

    def __repr__(self):
        return "A(%s %s %s %s %s %s)" % (self.read_id, self.chr, self.strand, self.isoform, self.gene, self.atype)


def read_assignments(path):
    res = []
    with _open(path) as f:
        for line in f:
            if line.startswith("#") or not line.strip():
                continue
            v = line.rstrip("\n").split("\t")
            a = Assignment()
            a.read_id, a.chr, a.strand, a.isoform, a.gene, a.atype, a.events, ex, add = v[:9]
            a.exons = parse_exons(ex)
            a.info = {}
            for kv in add.split(";"):
                kv = kv.strip()
                if "=" in kv:
                    k, val = kv.split("=", 1)
                    a.info[k] = val
            a.raw = line.rstrip("\n")
            res.append(a)
    return res


class Bed:
    __slots__ = ("chr", "start", "end", "name", "score", "strand", "thick_start", "thick_end", "rgb", "n",
                 "sizes", "starts", "raw")

    def exons(self):
        return [(self.start + s + 1, self.start + s + l) for s, l in zip(self.starts, self.sizes)]


def read_bed(path):
    res = []
    with _open(path) as f:
        for line in f:
            if line.startswith("#") or not line.strip():
                continue
            v = line.rstrip("\n").split("\t")
            b = Bed()
            b.raw = line.rstrip("\n")
            b.chr = v[0]
            b.start = int(v[1])
            b.end = int(v[2])
            b.name = v[3]
            b.score = v[4]
            b.strand = v[5]
            b.thick_start = int(v[6])
            b.thick_end = int(v[7])
            b.rgb = v[8]
            b.n = int(v[9])
            b.sizes = [int(x) for x in v[10].rstrip(",").split(",") if x != ""]
            b.starts = [int(x) for x in v[11].rstrip(",").split(",") if x != ""]
            res.append(b)
    return res


_attr_re = re.compile(r'\s*([^\s;]+)\s+"([^"]*)"\s*;')


class GtfRec:
    __slots__ = ("chr", "source", "type", "start", "end", "strand", "attrs", "raw", "lineno")


def read_gtf(path):
    recs = []
    with _open(path) as f:
        for i, line in enumerate(f):
            if line.startswith("#") or not line.strip():
                continue
            v = line.rstrip("\n").split("\t")
            r = GtfRec()
            r.raw = line.rstrip("\n")
            r.lineno = i + 1
            r.chr, r.source, r.type = v[0], v[1], v[2]
            r.start, r.end = int(v[3]), int(v[4])
            r.strand = v[6]
            r.attrs = OrderedDict()
            for m in _attr_re.finditer(v[8]):
                r.attrs.setdefault(m.group(1), m.group(2))
            recs.append(r)
    return recs


class GtfModel:
    """transcripts: id -> dict(chr,strand,gene,exons[list sorted as in file],rec count); genes: id -> list of recs"""

    def __init__(self, path):
        self.recs = read_gtf(path)
        self.transcripts = OrderedDict()
        self.transcript_recs = defaultdict(list)
        self.gene_recs = defaultdict(list)
        self.exon_recs = []
        for r in self.recs:
            if r.type == "gene":
                self.gene_recs[r.attrs.get("gene_id")].append(r)
            elif r.type == "transcript":
                self.transcript_recs[r.attrs.get("transcript_id")].append(r)
            elif r.type == "exon":
                tid = r.attrs.get("transcript_id")
                t = self.transcripts.setdefault(tid, {"chr": r.chr, "strand": r.strand, "gene": r.attrs.get("gene_id"),
                                                      "exons": [], "exon_ids": [], "chrs": set(), "strands": set(),
                                                      "genes": set()})
                t["exons"].append((r.start, r.end))
                t["exon_ids"].append(r.attrs.get("exon_id"))
                t["chrs"].add(r.chr)
                t["strands"].add(r.strand)
                t["genes"].add(r.attrs.get("gene_id"))
                self.exon_recs.append(r)


def introns_of(exons):
    ex = sorted(exons)
    return [(ex[i][1] + 1, ex[i + 1][0] - 1) for i in range(len(ex) - 1)]


def read_counts(path):
    """feature -> value (float) for 2-column tables; returns (OrderedDict, header)"""
    res = OrderedDict()
    header = None
    with _open(path) as f:
        for line in f:
            if line.startswith("#"):
                header = line.rstrip("\n")
                continue
            v = line.rstrip("\n").split("\t")
            if len(v) < 2:
                continue
            res[v[0]] = float(v[1])
    return res, header


def duplicate_rows(path):
    """feature ids (first column) that occur on more than one non-comment line"""
    seen, dup = set(), []
    with _open(path) as f:
        for line in f:
            if line.startswith("#") or not line.strip():
                continue
            k = line.split("\t", 1)[0]
            if k in seen:
                dup.append(k)
            seen.add(k)
    return dup


def read_matrix(path):
    """grouped matrix: returns (groups list, feature -> list of floats)"""
    groups = None
    res = OrderedDict()
    with _open(path) as f:
        for line in f:
            v = line.rstrip("\n").split("\t")
            if line.startswith("#"):
                groups = v[1:]
                continue
            res[v[0]] = [float(x) for x in v[1:]]
    return groups, res


def read_linear(path):
    res = []
    with _open(path) as f:
        for line in f:
            if line.startswith("#"):
                continue
            v = line.rstrip("\n").split("\t")
            if len(v) < 3:
                continue
            res.append((v[0], v[1], float(v[2])))
    return res


def read_model_reads(path):
    res = []
    with _open(path) as f:
        for line in f:
            if line.startswith("#"):
                continue
            v = line.rstrip("\n").split("\t")
            if len(v) >= 2:
                res.append((v[0], v[1]))
    return res


def read_feature_counts(path):
    """exon/intron count tables: list of dict rows"""
    rows = []
    with _open(path) as f:
        for line in f:
            if line.startswith("#") or line.startswith("chr\t"):
                continue
            v = line.rstrip("\n").split("\t")
            if len(v) < 9:
                continue
            rows.append({"chr": v[0], "start": int(v[1]), "end": int(v[2]), "strand": v[3], "flags": v[4],
                         "genes": v[5], "group": v[6], "inc": int(v[7]), "exc": int(v[8])})
    return rows


def read_fai(path):
    res = {}
    for line in open(path):
        v = line.split("\t")
        res[v[0]] = int(v[1])
    return res
