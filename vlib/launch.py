#!/usr/bin/env python3
"""Launcher: installs runtime monitors in-process, then runs the real isoquant.main().

Usage: python launch.py <isoquant arguments>
Environment:
  VERIF_REPO            path of the IsoQuant tree to run (default /repo)
  ABLAB_ISOQUANT_VERIF  guard; monitors are installed only when it is "1"
  VERIF_MON             comma separated monitor names (see monitors.py)
  VERIF_MON_CFG         JSON object with monitor parameters
  VERIF_EVENTS          directory for <pid>.jsonl event files
Forked pool workers inherit every patch installed here.
"""
import os
import sys

REPO = os.environ.get("VERIF_REPO", "/repo")
HERE = os.path.dirname(os.path.abspath(__file__))
sys.path.insert(0, REPO)
sys.path.insert(1, os.path.dirname(HERE))


def main():
    argv = sys.argv[1:]
    sys.argv = ["isoquant.py"] + argv
    if os.environ.get("ABLAB_ISOQUANT_VERIF") == "1" and os.environ.get("VERIF_MON"):
        from vlib import monitors
        monitors.install_pre(os.environ["VERIF_MON"].split(","))
    import isoquant
    if os.environ.get("ABLAB_ISOQUANT_VERIF") == "1" and os.environ.get("VERIF_MON"):
        monitors.install_post(os.environ["VERIF_MON"].split(","), isoquant)
    if os.environ.get("VERIF_START_AT"):
        # common release time for concurrent runs (all imports are done by now)
        import time
        while time.time() < float(os.environ["VERIF_START_AT"]):
            time.sleep(0.0005)
    try:
        isoquant.main(argv)
    except SystemExit:
        raise
    except KeyboardInterrupt:
        raise
    except BaseException:
        import traceback
        traceback.print_exc()
        sys.exit(255)


if __name__ == "__main__":
    main()
