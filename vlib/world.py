"""Synthetic world generator: genome, annotation, reads (-> BAM) with ground truth.

Everything random comes from one seeded random.Random; the same seed gives the
same world.  Coordinates of exons/introns are 1-based closed, as in GTF.
Nothing in here imports IsoQuant code.
"""
import gzip
import json
import os
import random

import pysam

COMP = {"A": "T", "C": "G", "G": "C", "T": "A", "N": "N"}


def revcomp(s):
    return "".join(COMP[c] for c in reversed(s))


# --------------------------------------------------------------------------- genome

def random_seq(rng, n):
    return [rng.choice("ACGT") for _ in range(n)]


def scrub(seq, rng, window=16, max_same=8):
    """Make sure no `window` contains more than max_same A (or T): IsoQuant's tail detector
    fires at 12/16; chance A-rich windows would create polyA events the truth does not know."""
    n = len(seq)
    for base, repl in (("A", "CG"), ("T", "CG")):
        cnt = 0
        for i in range(n):
            if seq[i] == base:
                cnt += 1
            if i >= window and seq[i - window] == base:
                cnt -= 1
            if cnt > max_same:
                # replace this base
                seq[i] = rng.choice(repl)
                cnt -= 1
    return seq


class Transcript:
    def __init__(self, tid, gene_id, chrom, strand, exons, annotated=True, kind="backbone"):
        self.id = tid
        self.gene_id = gene_id
        self.chrom = chrom
        self.strand = strand
        self.exons = [tuple(e) for e in exons]
        self.annotated = annotated
        self.kind = kind

    @property
    def introns(self):
        return [(self.exons[i][1] + 1, self.exons[i + 1][0] - 1) for i in range(len(self.exons) - 1)]

    @property
    def start(self):
        return self.exons[0][0]

    @property
    def end(self):
        return self.exons[-1][1]

    def to_json(self):
        return {"id": self.id, "gene": self.gene_id, "chr": self.chrom, "strand": self.strand,
                "exons": self.exons, "annotated": self.annotated, "kind": self.kind}


class Gene:
    def __init__(self, gid, chrom, strand):
        self.id = gid
        self.chrom = chrom
        self.strand = strand
        self.transcripts = []      # annotated
        self.hidden = []           # not in GTF
        self.site_class = "canonical"

    @property
    def start(self):
        return min(t.start for t in (self.transcripts or self.hidden))

    @property
    def end(self):
        return max(t.end for t in (self.transcripts or self.hidden))


class Read:
    """One alignment record."""
    __slots__ = ("name", "chrom", "pos0", "cigar", "seq", "flag", "mapq", "tags", "truth", "file_idx")

    def __init__(self, name, chrom, pos0, cigar, seq, flag=0, mapq=60, tags=None, truth=None, file_idx=0):
        self.name = name
        self.chrom = chrom
        self.pos0 = pos0
        self.cigar = cigar
        self.seq = seq
        self.flag = flag
        self.mapq = mapq
        self.tags = tags or []
        self.truth = truth or {}
        self.file_idx = file_idx

    @property
    def ref_end0(self):  # exclusive
        return self.pos0 + sum(l for op, l in self.cigar if op in (0, 2, 3, 7, 8))

    def aligned_exons(self):
        """Independent CIGAR walk: 1-based closed exons (M/=/X/D runs between N)."""
        exons = []
        pos = self.pos0 + 1
        cur = None
        for op, l in self.cigar:
            if op in (0, 7, 8, 2):
                if cur is None:
                    cur = [pos, pos + l - 1]
                else:
                    cur[1] = pos + l - 1
                pos += l
            elif op == 3:
                if cur is not None:
                    exons.append(tuple(cur))
                    cur = None
                pos += l
        if cur is not None:
            exons.append(tuple(cur))
        return exons


class World:
    def __init__(self, seed):
        self.seed = seed
        self.rng = random.Random(seed)
        self.chroms = {}      # name -> list of chars
        self.chrom_order = []
        self.genes = []
        self.reads = []
        self._read_counter = 0

    # ----------------------------------------------------------------- genome
    def add_chrom(self, name, length):
        seq = scrub(random_seq(self.rng, length), self.rng)
        self.chroms[name] = seq
        self.chrom_order.append(name)

    def chrom_len(self, name):
        return len(self.chroms[name])

    def plant_sites(self, chrom, intron, strand, site_class="canonical"):
        """intron = (first intronic base, last intronic base), 1-based."""
        seq = self.chroms[chrom]
        s, e = intron
        if site_class == "canonical":
            left, right = ("GT", "AG") if strand == "+" else ("CT", "AC")
        elif site_class == "gc_ag":
            left, right = ("GC", "AG") if strand == "+" else ("CT", "GC")
        elif site_class == "at_ac":
            left, right = ("AT", "AC") if strand == "+" else ("GT", "AT")
        elif site_class == "opposite":
            left, right = ("CT", "AC") if strand == "+" else ("GT", "AG")
        elif site_class == "none":
            left, right = ("CA", "CC")
        else:
            raise ValueError(site_class)
        seq[s - 1], seq[s] = left[0], left[1]
        seq[e - 2], seq[e - 1] = right[0], right[1]

    def seq_of(self, chrom, start, end):
        return "".join(self.chroms[chrom][start - 1:end])

    # ----------------------------------------------------------------- genes
    def make_gene(self, gid, chrom, start, strand, n_exons=None, n_iso=None, site_class="canonical",
                  exon_len=(120, 400), intron_len=(300, 1200), hidden_kinds=()):
        """Builds a gene with a backbone and variants. Returns (gene, end_position)."""
        rng = self.rng
        n_exons = n_exons or rng.randint(3, 8)
        g = Gene(gid, chrom, strand)
        g.site_class = site_class
        backbone = []
        pos = start
        for i in range(n_exons):
            el = rng.randint(*exon_len)
            backbone.append((pos, pos + el - 1))
            pos += el
            if i < n_exons - 1:
                pos += rng.randint(*intron_len)
        end = backbone[-1][1]
        variants = [("backbone", backbone)]
        n_iso = n_iso if n_iso is not None else rng.randint(1, 5)
        ops = ["skip", "alt_donor", "alt_acceptor", "retain", "trunc_left", "trunc_right", "skip2",
               "alt_last", "alt_first"]
        tries = 0
        while len(variants) < n_iso and tries < 40:
            tries += 1
            op = rng.choice(ops)
            v = self._variant(backbone, op)
            if v is None:
                continue
            if any(v == x[1] for x in variants):
                continue
            # margin: distinct splice sites of one locus are identical or at least site_gap (30 bp) apart
            sites = set()
            for _k, ex_ in variants:
                for a_, b_ in ex_:
                    sites.add(a_)
                    sites.add(b_)
            if any(0 < abs(x_ - y_) < 30 for a_, b_ in v for x_ in (a_, b_) for y_ in sites):
                continue
            variants.append((op, v))
        for k, (kind, ex) in enumerate(variants):
            g.transcripts.append(Transcript("%s.t%d" % (gid, k + 1), gid, chrom, strand, ex, True, kind))
        # hidden isoforms
        hk = 0
        for kind in hidden_kinds:
            v = None
            for _ in range(20):
                v = self._hidden_variant(g, backbone, kind)
                if v is not None and not any(v == t.exons for t in g.transcripts + g.hidden) and \
                        not any(self._chain(v) == self._chain(t.exons) for t in g.transcripts + g.hidden):
                    break
                v = None
            if v is None:
                continue
            hk += 1
            g.hidden.append(Transcript("%s.h%d" % (gid, hk), gid, chrom, strand, v, False, kind))
        # plant sites
        for t in g.transcripts + g.hidden:
            for intr in t.introns:
                self.plant_sites(chrom, intr, strand, site_class)
        self.genes.append(g)
        return g, end

    @staticmethod
    def _chain(exons):
        return [(exons[i][1] + 1, exons[i + 1][0] - 1) for i in range(len(exons) - 1)]

    def _variant(self, bb, op):
        rng = self.rng
        n = len(bb)
        bb = list(bb)
        if op == "skip" and n >= 3:
            i = rng.randint(1, n - 2)
            return bb[:i] + bb[i + 1:]
        if op == "skip2" and n >= 5:
            i = rng.randint(1, n - 3)
            return bb[:i] + bb[i + 2:]
        if op == "alt_donor" and n >= 2:   # change right end of exon i (i<n-1)
            i = rng.randint(0, n - 2)
            s, e = bb[i]
            d = rng.randint(40, 90)
            if e - d - s + 1 < 110:
                return None
            bb[i] = (s, e - d)
            return bb
        if op == "alt_acceptor" and n >= 2:  # change left end of exon i (i>0)
            i = rng.randint(1, n - 1)
            s, e = bb[i]
            d = rng.randint(40, 90)
            if e - (s + d) + 1 < 110:
                return None
            bb[i] = (s + d, e)
            return bb
        if op == "retain" and n >= 3:
            i = rng.randint(0, n - 2)
            return bb[:i] + [(bb[i][0], bb[i + 1][1])] + bb[i + 2:]
        if op == "trunc_left" and n >= 4:
            i = rng.randint(1, n - 3)
            v = bb[i:]
            return v
        if op == "trunc_right" and n >= 4:
            i = rng.randint(2, n - 2)
            return bb[:i + 1]
        if op == "alt_last" and n >= 3:
            # last exon replaced by one lying in the last intron
            s_prev, e_prev = bb[-2]
            s_last = bb[-1][0]
            room = s_last - e_prev - 1
            if room < 700:
                return None
            ns = e_prev + 250
            ne = ns + rng.randint(130, min(300, room - 450))
            return bb[:-1] + [(ns, ne)]
        if op == "alt_first" and n >= 3:
            e_first = bb[0][1]
            s_second = bb[1][0]
            room = s_second - e_first - 1
            if room < 700:
                return None
            ne = s_second - 250
            ns = ne - rng.randint(130, min(300, room - 450))
            return [(ns, ne)] + bb[1:]
        return None

    def _hidden_variant(self, g, bb, kind):
        """Unannotated isoforms: nnic (an unannotated junction) / nic (new combination of annotated introns)."""
        rng = self.rng
        n = len(bb)
        bb = list(bb)
        annotated_introns = set()
        for t in g.transcripts:
            annotated_introns.update(t.introns)
        if kind == "nnic_skip" and n >= 4:
            for _ in range(10):
                i = rng.randint(1, n - 2)
                v = bb[:i] + bb[i + 1:]
                if (bb[i - 1][1] + 1, bb[i + 1][0] - 1) not in annotated_introns:
                    return v
            return None
        if kind == "nnic_site" and n >= 3:
            i = rng.randint(1, n - 2)
            s, e = bb[i]
            d = rng.randint(100, 160)
            if e - s + 1 - d < 110:
                return None
            if rng.random() < 0.5:
                bb[i] = (s + d, e)
            else:
                bb[i] = (s, e - d)
            return bb
        if kind == "nic":
            # combine introns of two annotated isoforms that differ from backbone in disjoint places
            cands = [t for t in g.transcripts if t.kind in ("skip", "alt_donor", "alt_acceptor", "skip2")]
            if len(cands) < 2:
                return None
            a, b = rng.sample(cands, 2)
            # take left half from a and right half from b at a shared backbone exon
            shared = [e for e in bb if e in a.exons and e in b.exons]
            rng.shuffle(shared)
            for e in shared:
                ia, ib = a.exons.index(e), b.exons.index(e)
                v = a.exons[:ia] + b.exons[ib:]
                if len(v) < 3:
                    continue
                ch = self._chain(v)
                if all(x in annotated_introns for x in ch) and \
                        not any(ch == t.introns for t in g.transcripts):
                    # also must start/end like the backbone to be full-length
                    if v[0] == bb[0] and v[-1] == bb[-1]:
                        return v
            return None
        return None

    def make_mono_gene(self, gid, chrom, start, strand, length=None):
        length = length or self.rng.randint(400, 1500)
        g = Gene(gid, chrom, strand)
        g.transcripts.append(Transcript(gid + ".t1", gid, chrom, strand, [(start, start + length - 1)], True, "mono"))
        self.genes.append(g)
        return g, start + length - 1

    def all_transcripts(self, annotated_only=True):
        for g in self.genes:
            for t in g.transcripts:
                yield t
            if not annotated_only:
                for t in g.hidden:
                    yield t

    # ----------------------------------------------------------------- files
    def write_fasta(self, path, width=60, gz=False):
        op = gzip.open if gz else open
        with op(path, "wt") as f:
            for name in self.chrom_order:
                f.write(">%s\n" % name)
                s = "".join(self.chroms[name])
                for i in range(0, len(s), width):
                    f.write(s[i:i + width] + "\n")
        if not gz:
            # the index is written here, once: runs that share this file in parallel would otherwise race to build it lazily
            with open(path + ".fai", "w") as f:
                off = 0
                for name in self.chrom_order:
                    n = len(self.chroms[name])
                    off += len(name) + 2
                    f.write("%s\t%d\t%d\t%d\t%d\n" % (name, n, off, width, width + 1))
                    off += n + (n + width - 1) // width

    def gtf_lines(self, with_meta=True, exon_ids=None, id_map=None, no_meta_genes=()):
        """id_map: optional dict old id -> new id for genes/transcripts (for C17 collision worlds).
        exon_ids: optional dict (chrom,start,end,strand) -> exon_id string."""
        id_map = id_map or {}
        lines = []

        def src(fid):
            # features that carry IsoQuant-style ids (an extended annotation fed back as reference) also carry IsoQuant's source column
            return "IsoQuant" if (fid.startswith("novel_gene_") or (fid.startswith("transcript") and fid.endswith((".nic", ".nnic")))) else "vsynth"
        for chrom in self.chrom_order:
            genes = sorted([g for g in self.genes if g.chrom == chrom and g.transcripts], key=lambda g: (g.start, g.id))
            for g in genes:
                gid = id_map.get(g.id, g.id)
                meta_here = with_meta and g.id not in no_meta_genes      # genes described by exon records only (legal GTF)
                if meta_here:
                    lines.append("\t".join([chrom, src(gid), "gene", str(g.start), str(g.end), ".", g.strand, ".",
                                            'gene_id "%s"; gene_name "%s";' % (gid, gid)]))
                for t in g.transcripts:
                    tid = id_map.get(t.id, t.id)
                    if meta_here:
                        lines.append("\t".join([chrom, src(tid), "transcript", str(t.start), str(t.end), ".",
                                                t.strand, ".",
                                                'gene_id "%s"; transcript_id "%s";' % (gid, tid)]))
                    for e in t.exons:
                        attr = 'gene_id "%s"; transcript_id "%s";' % (gid, tid)
                        if exon_ids is not None:
                            k = (chrom, e[0], e[1], t.strand)
                            if k in exon_ids:
                                attr += ' exon_id "%s";' % exon_ids[k]
                        lines.append("\t".join([chrom, src(tid), "exon", str(e[0]), str(e[1]), ".", t.strand, ".",
                                                attr]))
        return lines

    def write_gff3(self, path, id_map=None, exon_ids=None, transcript_type="mRNA"):
        """The annotation as GFF3: gene / mRNA / exon records linked by ID and Parent (transcripts are typed `transcript_type`)."""
        id_map = id_map or {}
        with open(path, "w") as f:
            f.write("##gff-version 3\n")
            for chrom in self.chrom_order:
                genes = sorted([g for g in self.genes if g.chrom == chrom and g.transcripts], key=lambda g: (g.start, g.id))
                for g in genes:
                    gid = id_map.get(g.id, g.id)
                    f.write("\t".join([chrom, "vsynth", "gene", str(g.start), str(g.end), ".", g.strand, ".", "ID=%s;gene_id=%s;Name=%s" % (gid, gid, gid)]) + "\n")
                    for t in g.transcripts:
                        tid = id_map.get(t.id, t.id)
                        f.write("\t".join([chrom, "vsynth", transcript_type, str(t.start), str(t.end), ".", t.strand, ".",
                                           "ID=%s;Parent=%s;gene_id=%s;transcript_id=%s" % (tid, gid, gid, tid)]) + "\n")
                        for k, e in enumerate(t.exons):
                            attr = "ID=%s.e%d;Parent=%s;gene_id=%s;transcript_id=%s" % (tid, k + 1, tid, gid, tid)
                            if exon_ids is not None and (chrom, e[0], e[1], t.strand) in exon_ids:
                                attr += ";exon_id=%s" % exon_ids[(chrom, e[0], e[1], t.strand)]
                            f.write("\t".join([chrom, "vsynth", "exon", str(e[0]), str(e[1]), ".", t.strand, ".", attr]) + "\n")

    def write_gtf(self, path, gz=False, **kw):
        op = gzip.open if gz else open
        with op(path, "wt") as f:
            for l in self.gtf_lines(**kw):
                f.write(l + "\n")

    def write_bam(self, path, reads=None, file_idx=None, chrom_order=None):
        """chrom_order: order of the @SQ header lines (the records are sorted against that header)"""
        reads = self.reads if reads is None else reads
        if file_idx is not None:
            reads = [r for r in reads if r.file_idx == file_idx]
        write_bam(path, [(c, self.chrom_len(c)) for c in (chrom_order or self.chrom_order)], reads)

    def write_truth(self, path):
        with open(path, "w") as f:
            json.dump({"seed": self.seed,
                       "transcripts": [t.to_json() for t in self.all_transcripts(False)],
                       "reads": {r.name: r.truth for r in self.reads}}, f)

    # ----------------------------------------------------------------- reads
    def new_read_name(self, prefix="r"):
        self._read_counter += 1
        return "%s%06d" % (prefix, self._read_counter)

    def make_read(self, chrom, exons, name=None, polya=0, polyt=0, indels=0, flag=0, mapq=60, tags=None,
                  truth=None, file_idx=0, mismatches=0, junction_errors=False):
        """exons: aligned exons (1-based closed). polya: soft-clipped A-tail length at the right,
        polyt: soft-clipped T-head at the left.  indels: number of small exonic indels (>=15 bp from junctions)."""
        rng = self.rng
        cigar = []
        seq = []
        if polyt:
            cigar.append((4, polyt))
            seq.append("T" * polyt)
        for i, (s, e) in enumerate(exons):
            if i > 0:
                cigar.append((3, s - exons[i - 1][1] - 1))
            seg = self.seq_of(chrom, s, e)
            L = e - s + 1
            if indels > 0 and L >= 60 and rng.random() < 0.7:
                indels -= 1
                p = rng.randint(20, L - 25)
                k = rng.randint(1, 3)
                if rng.random() < 0.5:   # insertion
                    cigar += [(0, p), (1, k), (0, L - p)]
                    seq.append(seg[:p] + "".join(rng.choice("CG") for _ in range(k)) + seg[p:])
                else:                    # deletion
                    cigar += [(0, p), (2, k), (0, L - p - k)]
                    seq.append(seg[:p] + seg[p + k:])
            else:
                cigar.append((0, L))
                if junction_errors and L > 12:
                    # sequence errors right next to the splice junctions
                    sl = list(seg)
                    flip = {"A": "C", "C": "A", "G": "C", "T": "G"}
                    if i > 0:
                        for q in (1, 3):
                            sl[q] = flip[sl[q]]
                    if i < len(exons) - 1:
                        for q in (L - 2, L - 4):
                            sl[q] = flip[sl[q]]
                    seg = "".join(sl)
                if mismatches and L > 40:
                    sl = list(seg)
                    for _ in range(mismatches):
                        q = rng.randint(15, L - 16)
                        sl[q] = {"A": "C", "C": "A", "G": "C", "T": "G"}[sl[q]]
                    seg = "".join(sl)
                seq.append(seg)
        if polya:
            cigar.append((4, polya))
            seq.append("A" * polya)
        name = name or self.new_read_name()
        r = Read(name, chrom, exons[0][0] - 1, cigar, "".join(seq), flag, mapq, tags, truth, file_idx)
        self.reads.append(r)
        return r

    def add_mismatches(self, r, per_block=2, margin=15):
        """Replaces a few bases of every aligned block (M) of read r, at least `margin` bases away from the ends of the block."""
        if r.chrom is None:
            return r
        seq = list(r.seq)
        qpos = 0
        for op, ln in r.cigar:
            if op == 0:
                if ln > 2 * margin + 4:
                    for k in range(per_block):
                        q = qpos + margin + ((k * 7919 + len(seq)) % (ln - 2 * margin))
                        seq[q] = {"A": "C", "C": "G", "G": "T", "T": "A"}.get(seq[q].upper(), "A")
                qpos += ln
            elif op in (1, 4):
                qpos += ln
        r.seq = "".join(seq)
        return r

    def to_eqx(self, r):
        """Rewrites the M operations of read r as =/X runs (minimap2 --eqx, pbmm2 style); everything else stays."""
        if r.chrom is None:
            return r
        ref = self.chroms[r.chrom]
        out = []
        qpos, rpos = 0, r.pos0
        for op, ln in r.cigar:
            if op == 0:
                run_op, run_len = None, 0
                for k in range(ln):
                    o = 7 if r.seq[qpos + k].upper() == ref[rpos + k].upper() else 8
                    if o == run_op:
                        run_len += 1
                    else:
                        if run_op is not None:
                            out.append((run_op, run_len))
                        run_op, run_len = o, 1
                out.append((run_op, run_len))
                qpos += ln
                rpos += ln
            else:
                out.append((op, ln))
                if op in (1, 4):
                    qpos += ln
                elif op in (2, 3):
                    rpos += ln
        r.cigar = out
        return r

    def read_from_transcript(self, t, mode="full", jitter=0, polya=False, indels=0, min_overhang=30, **kw):
        """Derive aligned exons from transcript t.
        mode: full | trunc5 | trunc3 | trunc_both | mono (inside one exon)
        jitter: max splice-site shift applied independently to each site (|shift|<=jitter)."""
        rng = self.rng
        ex = list(t.exons)
        n = len(ex)
        left_trunc = right_trunc = False
        if mode == "full" or n == 1 and mode != "mono":
            i, j = 0, n - 1
        elif mode == "mono":
            i = j = rng.randrange(n)
        else:
            tl = mode in ("trunc_both",) or (mode == "trunc5" and t.strand == "+") or (mode == "trunc3" and t.strand == "-")
            tr = mode in ("trunc_both",) or (mode == "trunc3" and t.strand == "+") or (mode == "trunc5" and t.strand == "-")
            i, j = 0, n - 1
            if tl and n >= 2:
                i = rng.randint(0, n - 2)
                left_trunc = True
            if tr and n >= 2:
                j = rng.randint(max(i + 1, 1), n - 1) if i < n - 1 else n - 1
                right_trunc = True
        sub = ex[i:j + 1]
        start, end = sub[0][0], sub[-1][1]
        if mode == "mono":
            s, e = sub[0]
            L = e - s + 1
            if L < 100:
                return None
            a = rng.randint(s + 5, e - 80) if L > 100 else s
            b = rng.randint(a + 60, e - 5)
            sub = [(a, b)]
            left_trunc = right_trunc = True
        else:
            # truncate inside terminal exons when truncated, else small end wobble inside the exon
            if left_trunc or (i > 0):
                s, e = sub[0]
                if e - s + 1 > min_overhang + 5:
                    sub[0] = (rng.randint(s, e - min_overhang), e)
                left_trunc = True
            else:
                s, e = sub[0]
                w = rng.randint(0, min(10, max(0, e - s - min_overhang)))
                sub[0] = (s + w, e)
            if right_trunc or (j < n - 1):
                s, e = sub[-1]
                if e - s + 1 > min_overhang + 5:
                    sub[-1] = (s, rng.randint(s + min_overhang, e))
                right_trunc = True
            else:
                s, e = sub[-1]
                w = 0 if polya else rng.randint(0, min(10, max(0, e - s - min_overhang)))
                sub[-1] = (s, e - w)
            if polya and t.strand == "-":
                # polyT head: left end must sit at the transcript's 3' end (leftmost coordinate)
                if i == 0 and not (mode in ("trunc_both",)):
                    sub[0] = (ex[0][0], sub[0][1])
                    left_trunc = False
        true_exons = list(sub)
        aligned = list(sub)
        shifts = []
        if jitter and len(aligned) > 1:
            for k in range(len(aligned) - 1):
                dl = rng.randint(-jitter, jitter)
                dr = rng.randint(-jitter, jitter)
                shifts.append((dl, dr))
                aligned[k] = (aligned[k][0], aligned[k][1] + dl)
                aligned[k + 1] = (aligned[k + 1][0] + dr, aligned[k + 1][1])
        pa = pt = 0
        three_prime_complete = (t.strand == "+" and j == n - 1 and not (mode in ("trunc3", "trunc_both") and right_trunc and sub[-1][1] != ex[-1][1])) or \
                               (t.strand == "-" and i == 0 and sub[0][0] == ex[0][0])
        if polya:
            if t.strand == "+" and sub[-1][1] == ex[-1][1]:
                pa = rng.randint(25, 40)
            elif t.strand == "-" and sub[0][0] == ex[0][0]:
                pt = rng.randint(25, 40)
        truth = {"src": t.id, "gene": t.gene_id, "annotated": t.annotated, "mode": mode, "jitter": jitter,
                 "shifts": shifts, "true_exons": true_exons, "polya": bool(pa or pt), "indels": indels,
                 "first_exon_idx": i, "last_exon_idx": j, "strand": t.strand, "chr": t.chrom}
        truth.update(kw.pop("truth", {}) or {})
        return self.make_read(t.chrom, aligned, polya=pa, polyt=pt, indels=indels, truth=truth, **kw)


def write_bam(path, chrom_lens, reads):
    header = {"HD": {"VN": "1.6", "SO": "coordinate"},
              "SQ": [{"SN": c, "LN": l} for c, l in chrom_lens]}
    tid = {c: i for i, (c, l) in enumerate(chrom_lens)}
    # an unmapped record (flag 4) that names a sequence is a PLACED unmapped record (SAM: RNAME/POS set, e.g. next to its mate, CIGAR '*'):
    # it is sorted with the alignments and returned by fetch()
    mapped = [r for r in reads if not (r.flag & 4) or r.chrom is not None]
    unmapped = [r for r in reads if r.flag & 4 and r.chrom is None]
    mapped.sort(key=lambda r: (tid[r.chrom], r.pos0))
    with pysam.AlignmentFile(path, "wb", header=header) as out:
        for r in mapped + unmapped:
            a = pysam.AlignedSegment(out.header)
            a.query_name = r.name
            a.flag = r.flag
            if r.flag & 4 and r.chrom is not None:
                a.reference_id = tid[r.chrom]
                a.reference_start = r.pos0
                a.query_sequence = r.seq or "ACGTACGTAC"
                a.mapping_quality = 0
            elif r.flag & 4:
                a.reference_id = -1
                a.reference_start = -1
                a.query_sequence = r.seq or "ACGTACGTAC"
                a.mapping_quality = 0
            else:
                a.reference_id = tid[r.chrom]
                a.reference_start = r.pos0
                a.mapping_quality = r.mapq
                a.cigartuples = r.cigar
                a.query_sequence = r.seq
            for tg in r.tags:
                a.set_tag(*tg)
            out.write(a)
    pysam.index(path)


# --------------------------------------------------------------------------- standard worlds

def standard_world(seed, n_chroms=2, genes_per_chrom=5, chrom_len=None, hidden=False, mono_genes=True,
                   site_classes=("canonical",), max_exons=8, n_iso=None, antisense=True):
    """A general-purpose annotated world (no reads yet)."""
    w = World(seed)
    rng = w.rng
    for ci in range(n_chroms):
        cname = "chr%d" % (ci + 1)
        # build layout first to know the length
        est = genes_per_chrom * 14000 + 6000 + ci * 3000
        w.add_chrom(cname, chrom_len or est)
        pos = 1500
        for gi in range(genes_per_chrom):
            strand = rng.choice("+-")
            gid = "G%d_%d" % (ci + 1, gi + 1)
            hk = ()
            if hidden:
                hk = rng.choice([("nnic_skip",), ("nnic_site",), ("nic",), ("nnic_skip", "nic"), ()])
            sc = rng.choice(site_classes)
            g, end = w.make_gene(gid, cname, pos, strand, n_exons=rng.randint(3, max_exons), n_iso=n_iso,
                                 site_class=sc, hidden_kinds=hk)
            if end + 4000 > w.chrom_len(cname):
                w.genes.pop()
                break
            pos = end + rng.randint(1500, 3000)
            if mono_genes and rng.random() < 0.3:
                g2, end2 = w.make_mono_gene("M%d_%d" % (ci + 1, gi + 1), cname, pos, rng.choice("+-"))
                pos = end2 + rng.randint(1500, 3000)
    return w


def add_standard_reads(w, per_transcript=8, jitter=0, polya_frac=0.5, indel_frac=0.3, hidden_cov=0,
                       modes=("full", "full", "trunc5", "trunc3", "trunc_both", "mono")):
    rng = w.rng
    for g in w.genes:
        for t in g.transcripts:
            for _ in range(per_transcript):
                mode = rng.choice(modes)
                if len(t.exons) == 1:
                    mode = rng.choice(("full", "mono"))
                j = rng.randint(0, jitter) if jitter else 0
                w.read_from_transcript(t, mode=mode, jitter=j, polya=rng.random() < polya_frac,
                                       indels=1 if rng.random() < indel_frac else 0,
                                       flag=rng.choice((0, 16)))
        for t in g.hidden:
            for _ in range(hidden_cov):
                w.read_from_transcript(t, mode="full", jitter=0, polya=True, flag=rng.choice((0, 16)))
