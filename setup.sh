#!/bin/bash
# Offline set-up: third-party helpers (icontract) go into /verif/.deps (git-ignored).
DIR="$(cd "$(dirname "${BASH_SOURCE[0]}")" && pwd)"
cd "$DIR"
mkdir -p .deps evidence
if [ ! -d .deps/icontract ]; then
  PIP_NO_INDEX=1 /venv/bin/pip install --quiet --no-index --find-links /opt/veriftools/wheels --target "$DIR/.deps" icontract || exit 1
fi
/venv/bin/python -c "import sys; sys.path.insert(0,'$DIR/.deps'); import icontract; print('icontract', icontract.__version__)"
